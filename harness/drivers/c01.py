"""C01 -- unfold / fold / partial / vec / matricize are exact inverse index bijections.

Domain = TensorIndex.AllConfigs, enumerated by TLC (state dump of the design run, where the
bijection / fold-o-unfold theorems are checked on the specification).  Every configuration is run
through the real functions on the label tensor in 9 dtypes (+bool via one-hot superposition) and
3 memory layouts, then through the real inverse; TensorIndexTrace.tla decides each event.
"""
import os

import numpy as np

from ..common import execute_cases, ints

DTYPES = ["int8", "int32", "int64", "uint8", "float16", "float32", "float64", "complex64", "complex128"]


def label(shape, dtype):
    n = int(np.prod(shape))
    return np.arange(n).reshape(shape).astype(dtype)


INTFORMS = {"npint64": np.int64, "npint32": np.int32, "npuint8": np.uint8, "npintp": np.intp}


def argform(c, form):
    """The same configuration with every integer argument (mode, skips, row/column modes, shape entries) handed
    over as a NumPy integer scalar -- what `for mode in np.arange(ndim)`, `np.argmax(shape)`, entries of an
    ndarray give.  The index bijection is a function of the integer VALUES; the spec has no notion of their type."""
    f = INTFORMS[form]
    d = dict(c)
    for k in ("mode", "sb", "se"):
        if k in d and isinstance(d[k], int) and not isinstance(d[k], bool) and (d[k] >= 0 or form != "npuint8"):
            d[k] = f(d[k])
    for k in ("rows", "cols"):
        if k in d:
            d[k] = [f(x) for x in d[k]]
    if "ravel" in d:      # a flag is a flag in any truthy / falsy spelling: NumPy booleans, 0 / 1
        d["ravel"] = {"npint64": np.bool_(d["ravel"]), "npint32": int(d["ravel"]), "npuint8": np.uint8(d["ravel"])}.get(form, d["ravel"])
    return d


def call(c, t, shapeform="tuple"):
    import tensorly as tl
    from tensorly.base import matricize
    op = c["op"]
    shape = tuple(c["shape"])
    if shapeform == "list":
        shape = list(shape)
    elif shapeform == "npints":
        shape = tuple(np.int64(x) for x in shape)
    cf = c.get("callform")
    if cf in ("kw", "pos"):
        # every argument by its published NAME / every argument by its published POSITION (names and order of the pinned tree)
        kw = cf == "kw"

        def F(fn, names, *vals):
            return fn(**dict(zip(names, vals))) if kw else fn(*vals)
        if op == "unfold":
            out = F(tl.unfold, ("tensor", "mode"), t, c["mode"])
            return out, F(tl.fold, ("unfolded_tensor", "mode", "shape"), out, c["mode"], shape)
        if op == "vec":
            out = F(tl.tensor_to_vec, ("tensor",), t)
            return out, F(tl.vec_to_tensor, ("vec", "shape"), out, shape)
        if op == "partial_unfold" and not c["ravel"]:
            out = F(tl.partial_unfold, ("tensor", "mode", "skip_begin", "skip_end", "ravel_tensors"), t, c["mode"], c["sb"], c["se"], c["ravel"])
            return out, F(tl.partial_fold, ("unfolded", "mode", "shape", "skip_begin", "skip_end"), out, c["mode"], shape, c["sb"], c["se"])
        if op == "partial_vec":
            out = F(tl.partial_tensor_to_vec, ("tensor", "skip_begin", "skip_end"), t, c["sb"], c["se"])
            return out, F(tl.partial_vec_to_tensor, ("matrix", "shape", "skip_begin", "skip_end"), out, shape, c["sb"], c["se"])
        if op == "matricize" and c["colsgiven"]:
            rows, cols = list(c["rows"]), list(c["cols"])
            out = F(matricize, ("tensor", "row_modes", "column_modes"), t, rows, cols)
            perm = rows + cols
            return out, np.transpose(np.reshape(out, [shape[k] for k in perm]), np.argsort(perm))
    if op == "unfold":
        out = tl.unfold(t, c["mode"])
        back = tl.fold(out, c["mode"], shape)
    elif op == "vec":
        out = tl.tensor_to_vec(t)
        back = tl.vec_to_tensor(out, shape)
    elif op == "partial_unfold":
        out = tl.partial_unfold(t, mode=c["mode"], skip_begin=c["sb"], skip_end=c["se"], ravel_tensors=c["ravel"])
        if c["ravel"]:
            # the documented inverse of a ravelled partial unfolding of mode 0 is partial_vec_to_tensor;
            # for other modes un-ravel first (pure reshape), then partial_fold
            mid = list(shape[c["sb"]:len(shape) - c["se"]])
            m = mid.pop(c["mode"])
            un = out.reshape(list(shape[:c["sb"]]) + [m, -1] + list(shape[len(shape) - c["se"]:]))
            back = tl.partial_fold(un, c["mode"], shape, skip_begin=c["sb"], skip_end=c["se"])
        else:
            back = tl.partial_fold(out, c["mode"], shape, skip_begin=c["sb"], skip_end=c["se"])
    elif op == "partial_vec":
        out = tl.partial_tensor_to_vec(t, skip_begin=c["sb"], skip_end=c["se"])
        back = tl.partial_vec_to_tensor(out, shape, skip_begin=c["sb"], skip_end=c["se"])
    elif op == "matricize":
        rows, cols = list(c["rows"]), list(c["cols"])
        out = matricize(t, rows, cols if c["colsgiven"] else None)
        # no public inverse: undo with numpy only (reshape + inverse transpose) -- checks nothing new,
        # the Layout clause is the obligation here
        perm = rows + cols
        back = np.transpose(np.reshape(out, [shape[k] for k in perm]), np.argsort(perm))
    else:
        raise ValueError(op)
    return out, back


def one_run(c, t, indtype, shapeform="tuple"):
    try:
        out, back = call(c, t, shapeform)
    except Exception as ex:
        return {"raised": True, "exc": type(ex).__name__, "exact": True, "shape": [], "data": [], "dtype": "", "indtype": indtype,
                "back_shape": [], "back": [], "back_dtype": ""}
    def proj(a):
        a = np.asarray(a)
        if np.iscomplexobj(a):
            ex_im = bool(np.all(a.imag == 0))
            d, ex = ints(a.real)
            return d, ex and ex_im
        return ints(a)
    d, ex = proj(out)
    b, ex2 = proj(back)
    return {"raised": False, "exact": bool(ex and ex2), "shape": [int(x) for x in np.shape(out)], "data": d,
            "dtype": str(np.asarray(out).dtype), "indtype": indtype,
            "back_shape": [int(x) for x in np.shape(back)], "back": b, "back_dtype": str(np.asarray(back).dtype)}


def execute(case):
    c = case["cfg"]
    shape = tuple(c["shape"])
    n = int(np.prod(shape))
    runs = {}
    for dt in case["dtypes"]:
        if dt in ("int8",) and n > 127:
            continue
        runs[dt] = one_run(c, label(shape, dt), dt)
    if case.get("layouts") and len(shape) > 0:
        base = label(shape, "float64")
        # Fortran-ordered (transposed view) input
        f = np.asfortranarray(base)
        runs["f64_fortran"] = one_run(c, f, "float64")
        # strided view: every other element of a doubled last axis
        big = np.zeros(shape[:-1] + (shape[-1] * 2,))
        big[..., ::2] = base
        runs["f64_strided"] = one_run(c, big[..., ::2], "float64")
        # negative stride view
        rev = base[::-1].copy()[::-1]
        runs["f64_negstride"] = one_run(c, rev, "float64")
    for form in case.get("intforms", []):
        # argument forms: NumPy-integer modes / skips / row-column lists; shape as list or tuple of NumPy ints
        runs["f64_" + form] = one_run(argform(c, form), label(shape, "float64"), "float64",
                                      {"npint64": "npints", "npint32": "list"}.get(form, "tuple"))
    if case.get("callform"):
        runs["f64_" + case["callform"]] = one_run(dict(c, callform=case["callform"]), label(shape, "float64"), "float64")
    if case.get("bool"):
        # bool: superpose the one-hot patterns: sum_p p * f(onehot_p) recovers where entry p went
        acc_out = acc_back = None
        r = None
        for p in range(n):
            t = np.zeros(n, dtype=bool)
            t[p] = True
            r = one_run(c, t.reshape(shape), "bool")
            if r["raised"]:
                break
            o = np.array(r["data"]) * p
            b = np.array(r["back"]) * p
            acc_out = o if acc_out is None else acc_out + o
            acc_back = b if acc_back is None else acc_back + b
            if sum(r["data"]) != 1 or sum(r["back"]) != 1:
                r["exact"] = False
                break
        if not r["raised"]:
            r["data"] = [int(x) for x in acc_out]
            r["back"] = [int(x) for x in acc_back]
        runs["bool"] = r
    return {"id": case["id"], "cfg": c, "runs": runs}


def run(chk, opts):
    thorough = chk.tier == "thorough"
    r, cfgs = chk.export_configs("TensorIndex", "TensorIndexMC_thorough.cfg" if thorough else "TensorIndexMC_quick.cfg")
    chk.notes["design_run"] = r.summary()
    cfgs.sort(key=lambda c: (len(c["shape"]), c["shape"], c["op"], str(c)))
    cases = []
    for k, c in enumerate(cfgs):
        # every config: float64 + two rotating dtypes; every 7th (and all of order <= 2): all dtypes, layouts, bool
        high = len(c["shape"]) >= 7           # the 2 x 2 x ... x 2 family: 512+ entries, wide dtypes only
        full = (thorough or k % 7 == 0 or len(c["shape"]) <= 2) and not high
        dts = ["float64", "int64", "int32", "complex128"][: 2 + k % 3] if high else DTYPES if full else ["float64", DTYPES[k % len(DTYPES)], DTYPES[(k * 5 + 3) % len(DTYPES)]]
        # (thorough: one rotating form per configuration -- all four on every one of ~800 k configurations exhausts memory)
        forms = sorted(INTFORMS) if (full and not thorough) else [sorted(INTFORMS)[k % len(INTFORMS)]]
        cases.append({"id": "C01/%06d" % k, "cfg": c, "dtypes": sorted(set(dts)), "layouts": full or (high and k % 3 == 0), "intforms": forms,
                      "bool": full and 0 < int(np.prod(c["shape"])) <= 36, "callform": None if thorough and k % 3 else ["kw", "pos"][k % 2]})
    chk.add_cases(cases)
    chk.rule = ("all %d configurations of TensorIndex.AllConfigs (exported from TLC's design run: every shape with order<=%s, every op/mode/"
                "skip/ravel/row-column ordering, plus the all-twos tensors of order 9+), each on the label tensor in several dtypes, layouts and "
                "integer-argument forms; distinct = distinct configurations" % (len(cfgs), "5" if thorough else "4"))
    # executed and validated in batches: the thorough tier's ~800 k events do not fit in memory at once (16 TLC processes + the event lists)
    BATCH = 150000
    for b0 in range(0, len(cases), BATCH):
        events = execute_cases(execute, cases[b0:b0 + BATCH], repo=chk.repo)
        for e in events:
            if "cfg" in e:
                chk.distinct.add(str(e["cfg"]))
        if b0 == 0:
            for e in events[len(events) // 2: len(events) // 2 + 2]:
                chk.sample(e)
        by_id = {e.get("id"): e for e in events}
        for rid, clause, _ in chk.validate("TensorIndexTrace", events):
            chk.violation(rid, clause, event=by_id.get(rid))
        del events, by_id
    chk.exhaustive = len(chk.distinct) == len(cfgs) and not chk.machinery
    chk.assumptions += ["NumPy backend only", "label tensors decide data-oblivious permutations for every value assignment of the same shape"]


def replay(chk, rec, opts):
    case = rec["case"]
    ev = execute(case)
    chk.sample(ev)
    for rid, clause, _ in chk.validate("TensorIndexTrace", [ev]):
        chk.violation(rid, clause, case=case, event=ev)
