"""XITER (extension, not one of the listed properties): the control skeleton of the "plain" iterative decompositions --
HOOI (tucker), non_negative_tucker, non_negative_tucker_hals, tensor_ring_als, tensor_ring_als_sampled -- bound through
their own verbose logs.

IterLoop.tla is implementation-shaped and parameterised by what differs between the two families (when an error is
recorded, which sweeps print, where a callback sits, from which sweep on and with which comparison the stopping rule is
looked at).  TLC checks on the model: one recorded error per completed sweep, the last one belongs to the current iterate,
every exit is justified, a rule exit has compared two errors of this run's own sweeps (>= 3 sweeps for the Tucker family,
>= 2 for the ring family), the rule is never passed over, a zero budget does not sweep, every run terminates.
Real runs over algorithm x budget x tolerance x callback are recorded (no hook: the verbose log IS the trace) and validated
line by line by IterLoopTrace.tla; sweeps that print nothing are composed by the specification.
"""
import contextlib
import io
import re

import numpy as np

from ..common import execute_cases, qs

SCALE = 10**8
TUCKER = ("tucker", "nn_tucker", "nn_tucker_hals")
RING = ("tr_als", "tr_als_sampled")
CPF = ("nn_parafac", "nn_parafac_hals", "constrained_parafac")
RAND = "rand_parafac"


def qe(x):
    return qs(x, SCALE)


def make_data(c):
    rng = np.random.RandomState(c["seed"])
    shape = tuple(c["shape"])
    if c["data"] == "generic":
        X = rng.standard_normal(shape)
    else:
        core = rng.random_sample((2,) * len(shape))
        X = core
        for m, n in enumerate(shape):
            X = np.moveaxis(np.tensordot(rng.random_sample((n, 2)), X, axes=(1, m)), 0, m)
        if c["data"] == "noisy":
            X = X + 0.1 * np.std(X) * rng.standard_normal(shape)
    if c["alg"] in ("nn_tucker", "nn_tucker_hals") + CPF:
        X = np.abs(X)
    return X


LINE = [
    ("Err", re.compile(r"^reconstruction error=(\S+), variation=(\S+)\.$")),
    ("ConvT", re.compile(r"^converged in (\d+) iterations\.$")),
    ("IterE", re.compile(r"^Iteration (\d+) finished\. Reconstruction error: (\S+?)(?:, decrease = (\S+))?, unnormalized = (\S+)$")),
    ("Iter0", re.compile(r"^Iteration (\d+) finished\.$")),
    ("CbExit", re.compile(r"^Received True from callback function\. Exiting\.$")),
    ("ConvR", re.compile(r"^tensor_ring_als converged after (\d+) iterations\.$")),
    ("Err0", re.compile(r"^reconstruction error=(\S+)$")),
    ("ErrK", re.compile(r"^iteration (\d+), reconstr[au]ction error: (\S+), decrease = (\S+?)(?:, unnormalized = \S+)?$")),
    ("ConvC", re.compile(r"^PARAFAC converged after (\d+) iterations$")),
]


def execute(c):
    import tensorly as tl  # noqa
    from tensorly.decomposition import (tucker, non_negative_tucker, non_negative_tucker_hals, tensor_ring_als, tensor_ring_als_sampled,
                                        non_negative_parafac, non_negative_parafac_hals, constrained_parafac, randomised_parafac)
    tid = c["id"]
    X = make_data(c)
    alg, cap, tol = c["alg"], c["cap"], c["tol"]
    cb_errs = []
    cb_true = []
    cb = None
    if c["cb"]:
        def cb(dec, err=None):
            cb_errs.append(float("nan") if err is None else float(err))
            stop = c["cb_stop_at"] is not None and len(cb_errs) - 2 == c["cb_stop_at"]      # call 0 is the pre-loop one
            if stop:
                cb_true.append(len(cb_errs) - 2)
            return stop
    buf = io.StringIO()
    out, exc, errs = "ok", "", None
    try:
        with contextlib.redirect_stdout(buf), np.errstate(all="ignore"):
            if alg == "tucker":
                _, errs = tucker(X, c["rank"], n_iter_max=cap, tol=tol, init=c["init"], random_state=c["seed"], verbose=True, return_errors=True)
            elif alg == "nn_tucker":
                _, errs = non_negative_tucker(X, c["rank"], n_iter_max=cap, tol=tol, init=c["init"], random_state=c["seed"], verbose=True, return_errors=True)
            elif alg == "nn_tucker_hals":
                _, errs = non_negative_tucker_hals(X, c["rank"], n_iter_max=cap, tol=tol, init=c["init"], random_state=c["seed"], verbose=True,
                                                   return_errors=True, algorithm=c.get("algorithm", "fista"))
            elif alg in CPF:
                cvg = "rec_error" if c.get("signed") else "abs_rec_error"
                rk = c["rank"] if isinstance(c["rank"], int) else c["rank"][0]
                if alg == "nn_parafac":
                    _, errs = non_negative_parafac(X, rk, n_iter_max=cap, tol=tol, init=c["init"], random_state=c["seed"], verbose=1, return_errors=True,
                                                   cvg_criterion=cvg)
                elif alg == "nn_parafac_hals":
                    _, errs = non_negative_parafac_hals(X, rk, n_iter_max=cap, tol=tol, init=c["init"], random_state=c["seed"], verbose=True,
                                                        return_errors=True, cvg_criterion=cvg)
                else:
                    _, errs = constrained_parafac(X, rk, n_iter_max=cap, tol_outer=tol, init=c["init"], random_state=c["seed"], verbose=True,
                                                  return_errors=True, cvg_criterion=cvg, non_negative=True, n_iter_max_inner=c.get("inner", 5))
            elif alg == RAND:
                import warnings
                with warnings.catch_warnings():
                    warnings.simplefilter("ignore")
                    rk = c["rank"] if isinstance(c["rank"], int) else c["rank"][0]
                    _, errs = randomised_parafac(X, rk, c.get("n_samples", 20), n_iter_max=cap, init=c["init"], tol=tol, max_stagnation=c.get("maxstag", 0),
                                                 random_state=c["seed"], verbose=True, return_errors=True, callback=cb)
            elif alg == "tr_als":
                tensor_ring_als(X, c["rank"], n_iter_max=cap, tol=tol, random_state=c["seed"], verbose=True, callback=cb, ls_solve=c.get("ls_solve", "lstsq"))
                errs = cb_errs[1:] if c["cb"] else None
            else:
                tensor_ring_als_sampled(X, c["rank"], c.get("n_samples", 30), n_iter_max=cap, tol=tol, random_state=c["seed"], verbose=True, callback=cb,
                                        uniform_sampling=c.get("uniform", False))
                errs = cb_errs[1:] if c["cb"] else None
        if errs is not None:
            errs = [float(e) for e in errs]
    except Exception as ex:          # noqa
        out, exc = "raised", type(ex).__name__ + ": " + str(ex)[:80]
    raw_printed = []
    events = []
    n = 0
    for line in buf.getvalue().split("\n"):
        line = line.strip()
        if not line:
            continue
        n += 1
        ev = {"id": "%s/%d" % (tid, n), "tr": tid, "ev": "Unknown", "text": line[:80]}
        for name, rx in LINE:
            m = rx.match(line)
            if not m:
                continue
            if name == "Err":
                ev.update(ev="Err", e=qe(float(m.group(1))), d=qe(float(m.group(2))))
                raw_printed.append(float(m.group(1)))
            elif name in ("ConvT", "ConvR", "ConvC"):
                ev.update(ev="Conv", k=int(m.group(1)), fam={"ConvT": "tucker", "ConvR": "ring", "ConvC": "cp"}[name])
            elif name == "Err0":
                ev.update(ev="Err0", e=qe(float(m.group(1))))
                raw_printed.append(float(m.group(1)))
            elif name == "ErrK":
                ev.update(ev="ErrK", k=int(m.group(1)), e=qe(float(m.group(2))), d=qe(float(m.group(3))))
                raw_printed.append(float(m.group(2)))
            elif name == "IterE":
                ev.update(ev="Iter", k=int(m.group(1)), has_e=True, e=qe(float(m.group(2))), has_d=m.group(3) is not None,
                          d=qe(float(m.group(3))) if m.group(3) is not None else 0)
                raw_printed.append(float(m.group(2)))
            elif name == "Iter0":
                ev.update(ev="Iter", k=int(m.group(1)), has_e=False, e=0, has_d=False, d=0)
            else:
                ev["ev"] = "CbExit"
            break
        events.append(ev)
    n_errs = -1 if errs is None else len(errs)
    if errs is None and alg in RING and tol:
        errs = raw_printed            # no list is handed back and no callback collects one: the printed values are the record
    errs = errs or []
    below = []
    for k in range(1, len(errs)):
        dec = errs[k - 1] - errs[k]
        signed = alg in RING or (alg in CPF and bool(c.get("signed")))
        below.append(bool(tol) and bool(dec < tol if signed else abs(dec) < tol))
    improved, min_error = [], 0
    if alg == RAND:
        for e_ in errs:
            imp = (not min_error) or e_ < min_error
            if imp:
                min_error = e_
            improved.append(bool(imp))
    call = {"id": tid + "/call", "tr": tid, "ev": "Call", "improved": improved,
            "cfg": {"alg": alg, "cap": cap, "tol": bool(tol), "cb": bool(c["cb"]), "cbstops": bool(c["cb"]) and c["cb_stop_at"] is not None,
                    "signed": alg in RING or (alg in CPF and bool(c.get("signed"))),
                    "maxstag": int(c.get("maxstag", 0)) if alg == RAND else 0},
            "errs": [qe(e) for e in errs], "n_errs": n_errs, "n_cb": len(cb_errs), "cb_true_at": cb_true[0] if cb_true else -1, "below": below, "out": out, "exc": exc}
    return [call] + events + [{"id": tid + "/end", "tr": tid, "ev": "Return" if out == "ok" else "Raise", "exc": exc}]


def configs(tier, seed):
    rng = np.random.RandomState(seed + 1212)
    thorough = tier == "thorough"
    cfgs = []

    def add(**kw):
        c = {"id": "it%04d" % len(cfgs), "seed": int(rng.randint(0, 10**6)), "shape": [4, 5, 3], "rank": [2, 2, 2], "data": "generic", "init": "random",
             "cap": 8, "tol": 0, "cb": False, "cb_stop_at": None}
        c.update(kw)
        if c["alg"] in ("tr_als", "tr_als_sampled") and c["rank"] == [2, 2, 2]:
            c["rank"] = [2, 2, 2, 2]
        cfgs.append(c)
    caps = (0, 1, 2, 3, 4, 6, 12)
    for alg in TUCKER:
        for cap in caps:
            for tol in (0, 1e-300, 1e-2):
                for init in ("svd", "random"):
                    add(alg=alg, cap=cap, tol=tol, init=init, data=["generic", "lowrank", "noisy"][len(cfgs) % 3])
        # convergence exits: loose tolerances, longer budgets; the exact-fit case (variation 0 from the third sweep on)
        for j in range(12 if thorough else 5):
            add(alg=alg, cap=[40, 25, 60][j % 3], tol=[1e-3, 1e-6, 1e-1, 0.5, 1e-10][j % 5], init=["svd", "random"][j % 2], data=["lowrank", "noisy", "generic"][j % 3],
                shape=[[4, 5, 3], [5, 4], [3, 4, 2, 3]][j % 3], rank=[[2, 2, 2], [2, 2], [2, 2, 2, 2]][j % 3])
        if alg == "nn_tucker_hals":
            for cap in (0, 1, 3, 5):
                add(alg=alg, cap=cap, tol=1e-4, algorithm="active_set", init="svd", data="lowrank")
    for alg in ("tr_als", "tr_als_sampled"):
        for cap in caps:
            for tol in (0, 1e-300, 1e-2):
                for cbk in ("none", "never", "stops"):
                    add(alg=alg, cap=cap, tol=tol, cb=cbk != "none", cb_stop_at=int(rng.randint(0, max(1, cap))) if cbk == "stops" else None,
                        data=["generic", "lowrank", "noisy"][len(cfgs) % 3], ls_solve=["lstsq", "normal_eq"][len(cfgs) % 2], uniform=bool(len(cfgs) % 2))
        for j in range(12 if thorough else 5):
            add(alg=alg, cap=[40, 25, 60][j % 3], tol=[1e-3, 1e-6, 1e-1, 0.5, 1e-10][j % 5], cb=j % 2 == 0, data=["lowrank", "noisy", "generic"][j % 3],
                n_samples=[30, 60, 15][j % 3])
    for alg in CPF:
        for cap in caps:
            for tol in (0, 1e-300, 1e-2):
                for signed in (False, True):
                    add(alg=alg, cap=cap, tol=tol, signed=signed, rank=2, init=["svd", "random"][len(cfgs) % 2], data=["generic", "lowrank", "noisy"][len(cfgs) % 3])
        for j in range(12 if thorough else 5):
            add(alg=alg, cap=[40, 25, 60][j % 3], tol=[1e-3, 1e-6, 1e-1, 0.5, 1e-10][j % 5], signed=j % 2 == 1, rank=[2, 3][j % 2], init=["svd", "random"][j % 2],
                data=["lowrank", "noisy", "generic"][j % 3], shape=[[4, 5, 3], [5, 4], [3, 4, 2, 3]][j % 3], inner=[5, 1, 10][j % 3])
    for cap in caps + (30,):
        for tol in (0, 1e-300, 1e-2):
            for ms in (0, 1, 3):
                for cbk in ("none", "never", "stops"):
                    if (len(cfgs) + cap) % 2 and cap not in (0, 3, 30):
                        continue
                    add(alg=RAND, cap=cap, tol=tol, maxstag=ms, rank=2, init=["svd", "random"][len(cfgs) % 2], cb=cbk != "none",
                        cb_stop_at=int(rng.randint(0, max(1, cap))) if cbk == "stops" else None, data=["generic", "lowrank", "noisy"][len(cfgs) % 3],
                        n_samples=[20, 8, 40][len(cfgs) % 3])
    for j in range(200 if thorough else 30):
        alg = (TUCKER + RING + CPF + (RAND,))[int(rng.randint(0, 9))]
        cap = int(rng.randint(0, 20))
        cbk = ["none", "never", "stops"][int(rng.randint(0, 3))] if alg.startswith("tr_") or alg == RAND else "none"
        add(alg=alg, cap=cap, tol=[0, 1e-300, 1e-4, 1e-2, 0.3][int(rng.randint(0, 5))], init=["svd", "random"][int(rng.randint(0, 2))],
            data=["generic", "lowrank", "noisy"][int(rng.randint(0, 3))], cb=cbk != "none",
            cb_stop_at=int(rng.randint(0, max(1, cap))) if cbk == "stops" else None, signed=bool(rng.rand() < 0.5),
            **({"rank": 2} if alg in CPF + (RAND,) else {}), maxstag=int(rng.randint(0, 4)) if alg == RAND else 0)
    return cfgs


def run(chk, opts):
    for cfg in ("IterLoopMC_all.cfg", "IterLoopMC_long.cfg"):
        r = chk.design("IterLoopMC", cfg, coverage=True, timeout=900)
        chk.notes["design_" + cfg] = r.summary()
        for a in ("Start", "Sweep", "Rec", "PrintLine", "Cb", "Tol", "Feas"):
            if not r.coverage.get(a, (0, 0))[0]:
                chk.machinery.append("%s: action %s never taken (vacuous model)" % (cfg, a))
    cfgs = configs(chk.tier, chk.seed)
    chk.add_cases(cfgs)
    traces = execute_cases(execute, cfgs, repo=chk.repo, chunksize=1)
    events = [e for tr in traces for e in tr]
    kinds = {}
    for e in events:
        kinds[e["ev"]] = kinds.get(e["ev"], 0) + 1
        if e["ev"] != "Call":
            chk.distinct.add((e["ev"], e.get("k"), e.get("has_d")))
    chk.notes["events_by_kind"] = kinds
    for k in ("Err", "Iter", "Err0", "ErrK", "Conv", "CbExit", "Return"):
        if not kinds.get(k):
            chk.machinery.append("no %s event recorded: the runs do not exercise that action" % k)
    for e in [x for x in events if x["ev"] in ("Err", "Conv")][:2]:
        chk.sample(e)
    by_id = {e["id"]: e for e in events}
    by_cfg = {c["id"]: c for c in cfgs}
    for rid, clause, _ in chk.validate("IterLoopTrace", events, stateful=True, group_key="tr"):
        e = by_id.get(rid, {})
        chk.violation(rid, clause, case=by_cfg.get(e.get("tr")), event=e)
    chk.rule = "%d runs (verbose) of tucker / non_negative_tucker / non_negative_tucker_hals / tensor_ring_als / tensor_ring_als_sampled over budget x tol x callback; one event per printed line" % len(cfgs)
    chk.exhaustive = False
    chk.assumptions += ["the verbose log is the observation: sweeps and steps that print nothing are inferred by the specification's silent steps",
                        "whether the stopping rule held at a sweep is a floating-point comparison evaluated by the harness on the recorded errors",
                        "error laws are checked on values quantised to 1e-8 (slack 2 units)"]


def replay(chk, rec, opts):
    case = rec["case"]
    events = execute(case)
    by_id = {e["id"]: e for e in events}
    for rid, clause, _ in chk.validate("IterLoopTrace", events, stateful=True, group_key="tr"):
        chk.violation(rid, clause, case=case, event=by_id.get(rid))
