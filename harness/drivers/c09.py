"""C09 -- SVD-based decompositions: exact at sufficient rank, else quasi-optimal.

Exact tier: "matching" tensors (non-zeros pairwise different in every coordinate; every unfolding is a
generalised permutation matrix, so SVDDecomp knows all spectra exactly) x every rank configuration
SVDDecomp enumerates for the shape (tucker / tensor_train / tensor_train_matrix / tensor_ring with
all starting modes, ranks from 1 to beyond the mode sizes, invalid requests that must raise).
Measured tier (thorough): dense tensors; the tails of the unfoldings are measured with numpy.linalg.svd.
Python measures err^2 and the returned ranks; SVDDecompTrace.tla decides.
"""
import random

import numpy as np

from ..common import execute_cases, q, repo_commit


# ------------------------------------------------------------------------------------------ tensors
def matching_tensor(t):
    X = np.zeros(tuple(t["shape"]))
    for ix, v in zip(t["idx"], t["vals"]):
        X[tuple(ix)] = float(v)
    return X


LEVELS = [0, -20, -30]          # SVDDecomp.Levels
MENUS = {1: [[3]], 2: [[5, 2], [2, 2]], 3: [[5, 3, 2], [3, 3, 1]], 4: [[5, 3, 2, 1], [5, 2, 2, 1]]}      # SVDDecomp.MagMenus


def rotated_tensor(t):
    """Graded tier: the matching tensor with entries vals * 2^exps, multiplied along every mode by a (seeded)
    orthogonal matrix -- dense, same singular values of every unfolding."""
    shape = tuple(t["shape"])
    X = np.zeros(shape)
    for ix, v, g in zip(t["idx"], t["vals"], t["exps"]):
        X[tuple(ix)] = float(v) * 2.0 ** g
    rng = np.random.RandomState(t["tseed"])
    for k, d in enumerate(shape):
        Q, _ = np.linalg.qr(rng.normal(size=(d, d)))
        X = np.moveaxis(np.tensordot(Q, X, axes=(1, k)), 0, k)
    return X


def draw_rotated(rng, shape):
    p = min(min(shape), rng.choice([2, 2, 3]))
    cols = [sorted(rng.sample(range(shape[0]), p))] + [rng.sample(range(d), p) for d in shape[1:]]
    mags = list(rng.choice(MENUS[p]))
    rng.shuffle(mags)
    exps = [0] + [rng.choice(LEVELS[1:]) if rng.random() < 0.8 else 0 for _ in range(p - 1)]
    rng.shuffle(exps)
    return {"op": "rotated", "shape": list(shape), "idx": [[c[q] for c in cols] for q in range(p)],
            "vals": [m * rng.choice([-1, 1]) for m in mags], "exps": exps, "tseed": rng.randrange(2**31)}


def measured_tensor(t):
    shape, fam = tuple(t["shape"]), t["fam"]
    rng = np.random.RandomState(t["tseed"])
    N = len(shape)
    if fam == "generic":
        X = rng.normal(size=shape)
    elif fam == "integer":
        X = rng.randint(-2, 3, size=shape).astype(float)
        if not X.any():
            X.flat[0] = 1.0
    elif fam == "lowmultilinear":            # exactly low multilinear rank: small core times random factors
        rk = [max(1, min(d, t["lr"])) for d in shape]
        X = rng.normal(size=rk)
        for k in range(N):
            X = np.moveaxis(np.tensordot(rng.normal(size=(shape[k], rk[k])), X, axes=(1, k)), 0, k)
    elif fam == "lowtt":                     # exactly low TT rank: product of random cores
        r = [1] + [max(1, min(t["lr"], int(np.prod(shape[:k])), int(np.prod(shape[k:])))) for k in range(1, N)] + [1]
        X = rng.normal(size=(1, shape[0], r[1]))
        for k in range(1, N):
            X = np.tensordot(X, rng.normal(size=(r[k], shape[k], r[k + 1])), axes=(X.ndim - 1, 0))
        X = X.reshape(shape)
    elif fam == "rankone":                   # outer product of random vectors (exactly rank one in every sense)
        X = rng.normal(size=shape[0])
        for d in shape[1:]:
            X = np.multiply.outer(X, rng.normal(size=d))
    elif fam == "rankdeficient":             # two equal slices along every mode of size >= 2
        X = rng.normal(size=shape)
        for k in range(N):
            if shape[k] >= 2:
                ix = [slice(None)] * N
                ix0 = list(ix)
                ix[k], ix0[k] = shape[k] - 1, 0
                X[tuple(ix)] = X[tuple(ix0)]
    else:
        raise ValueError(fam)
    return X


def unfoldings(op, X, mode):
    """The matrices whose spectra enter the bounds (definitional index re-arrangements in numpy)."""
    N = X.ndim
    if op == "tucker":
        return [np.moveaxis(X, k, 0).reshape(X.shape[k], -1) for k in range(N)]
    if op == "ttm":
        n = N // 2
        perm = [i for pair in zip(range(n), range(n, 2 * n)) for i in pair]
        X = np.transpose(X, perm).reshape([X.shape[k] * X.shape[n + k] for k in range(n)])
        N = n
    if op == "tr":
        X = np.transpose(X, list(range(mode, N)) + list(range(mode)))
    return [X.reshape(int(np.prod(X.shape[:j])), -1) for j in range(1, N)]


# ------------------------------------------------------------------------------------------ one call
# The published signatures of the pinned tree (frozen here on purpose: a parameter inserted in the middle of a
# signature, or renamed, must show up through the positional / keyword call forms).
SIGNATURES = {
    "tucker": ["tensor", "rank", "fixed_factors", "n_iter_max", "init", "return_errors", "svd", "tol", "random_state", "mask", "verbose"],
    "tensor_train": ["input_tensor", "rank", "svd", "verbose"],
    "tensor_train_matrix": ["tensor", "rank", "svd", "verbose"],
    "tensor_ring": ["input_tensor", "rank", "mode", "svd", "verbose"],
    "Tucker": ["rank", "n_iter_max", "init", "return_errors", "svd", "tol", "fixed_factors", "random_state", "mask", "verbose"],
    "TensorTrain": ["rank", "svd", "verbose"],
    "TensorTrainMatrix": ["rank", "svd", "verbose"],
    "TensorRing": ["rank", "mode", "svd", "verbose"],
}


def invoke(fn, name, values, cform, has_first=True):
    """Calls fn with `values` (dict over SIGNATURES[name]; absent = default) positionally in the published order
    ("pos": every parameter up to the last one given), all by keyword ("kw"), or the usual mixture ("mixed")."""
    names = SIGNATURES[name]
    if cform == "pos":
        last = max(k for k, nme in enumerate(names) if nme in values)
        missing = [nme for nme in names[:last + 1] if nme not in values]
        if missing:
            raise AssertionError("positional call needs %s" % missing)
        return fn(*[values[nme] for nme in names[:last + 1]])
    if cform == "kw" or not has_first:
        return fn(**{nme: values[nme] for nme in names if nme in values})
    return fn(values[names[0]], **{nme: values[nme] for nme in names[1:] if nme in values})


def rank_argument(c, rspec, frac):
    """The `rank` argument in the documented form `rspec` standing for the rank vector c["rank"]."""
    r = [int(x) for x in c["rank"]]
    if rspec == "list":
        return list(r)
    if rspec == "tuple":
        return tuple(r)
    if rspec == "npint":
        return [np.int64(x) if k % 2 == 0 else np.int32(x) for k, x in enumerate(r)]
    if rspec == "ndarray":
        return np.array(r)
    if rspec == "int":
        return r[0] if c["op"] in ("tucker", "tr") else r[1]
    if rspec == "none":
        return None
    if rspec == "same":
        return "same"
    if rspec == "float":
        return frac / 100.0
    raise ValueError(rspec)


def mode_argument(c, mspec):
    """tensor_ring's `mode` in the spelling `mspec` (SVDDecomp.ModeSpecs)."""
    m = int(c["mode"])
    return {"int": m, "np64": np.int64(m), "np32": np.int32(m), "npintp": np.intp(m), "neg": m - len(c["shape"])}[mspec]


def uniform_rank(c):
    r = c["rank"]
    if c["op"] in ("tucker", "tr"):
        return len(set(r)) == 1
    return len(r) >= 3 and r[0] == 1 and r[-1] == 1 and len(set(r[1:-1])) == 1


def placeholder_rank(op, shape):
    n = len(shape)
    return [1] * (n if op == "tucker" else n // 2 + 1 if op == "ttm" else n + 1)


def execute(case):
    import tensorly as tl
    from tensorly.decomposition import (tucker, tensor_train, tensor_train_matrix, tensor_ring,
                                        Tucker, TensorTrain, TensorTrainMatrix, TensorRing)
    c, t = case["cfg"], case["ten"]
    X = matching_tensor(t) if t["op"] == "matching" else rotated_tensor(t) if t["op"] == "rotated" else measured_tensor(t)
    dtype = case.get("dtype", "float64")
    pow2 = int(case.get("pow2", 0))
    unit = 2.0 ** pow2             # exact scaling; the contract is scale invariant
    Xin = (X * unit).astype(dtype) if pow2 else X.astype(dtype)   # integer dtypes only for integer-valued tensors (trace spec)
    zeros = case.get("zeros", "pos") if dtype.startswith("float") else "pos"
    if zeros != "pos":              # the exact zeros of the tensor as -0.0 or as the smallest subnormal (same tensor to 1e-300)
        Xin = np.where(Xin == 0, np.array(-0.0 if zeros == "neg" else 5e-324, dtype=Xin.dtype), Xin)
        if zeros == "sub" and dtype == "float32":
            Xin = np.where(Xin == 0, np.float32(1e-45), Xin)
    ev = {"id": case["id"], "cfg": c, "svd": case["svd"], "iters": case["iters"], "dtype": dtype, "pow2": pow2, "zeros": zeros,
          "ten": {k: v for k, v in t.items() if k in ("op", "shape", "idx", "vals", "fam", "exps")}}
    nrm2 = float(np.sum(X ** 2))
    if t["op"] == "matching":
        ev["data"] = [int(v) for v in X.ravel()]
        scale, den = 10**6, 1.0
    elif t["op"] == "rotated":
        scale, den = 10**6, 1.0
    else:
        scale, den = 10**8, nrm2
        tails = []
        for M in unfoldings(c["op"], X, c["mode"]):
            s = np.linalg.svd(M, compute_uv=False)              # the independent instrument
            mr = min(M.shape)
            tails.append([max(0, q(float(np.sum(s[r:mr] ** 2)) / den, scale)) for r in range(mr + 1)])
        ev["tails"] = tails
    out = {"raised": False, "exc": "none", "about_rank": False, "ranks": [], "err2_q": 0, "rel_q": 0, "fin": False, "err2_lv": [0] * len(LEVELS)}
    np.random.seed(case["seed"] % (2**32))       # tensor_train / tensor_ring have no random_state argument
    rspec, via = case.get("rspec", "list"), case.get("via", "function")
    ev["rspec"], ev["frac"], ev["via"] = rspec, int(case.get("frac", 0)), via
    ev["mspec"] = case.get("mspec", "int")
    if via == "refit":
        ev["pre"] = [int(d) for d in case["pre"]]
    try:
        rank = rank_argument(c, rspec, ev["frac"])
        Xt = tl.tensor(Xin)
        cform, ret_err = case.get("cform", "mixed"), bool(case.get("ret_err", False))
        ev["cform"], ev["ret_err"], ev["retry"] = cform, ret_err, bool(case.get("retry", False))
        ev["svd_default"] = bool(case.get("svd_default", False)) and case["svd"] == "truncated_svd" and cform != "pos"
        fname = {"tucker": "tucker", "tt": "tensor_train", "ttm": "tensor_train_matrix", "tr": "tensor_ring"}[c["op"]]
        cname = {"tucker": "Tucker", "tt": "TensorTrain", "ttm": "TensorTrainMatrix", "tr": "TensorRing"}[c["op"]]
        fn = {"tucker": tucker, "tt": tensor_train, "ttm": tensor_train_matrix, "tr": tensor_ring}[c["op"]]
        cls = {"tucker": Tucker, "tt": TensorTrain, "ttm": TensorTrainMatrix, "tr": TensorRing}[c["op"]]

        def values(svd_name, first):
            v = {"rank": rank, "svd": svd_name}
            if first is not None:
                v[SIGNATURES[fname][0]] = first
            if c["op"] == "tucker":
                v.update(n_iter_max=case["iters"], init="svd", random_state=case["seed"])
                if ret_err or cform == "pos":
                    v["return_errors"] = ret_err
                if cform == "pos":
                    v.update(fixed_factors=None, tol=10e-5)
            if c["op"] == "tr":
                v["mode"] = mode_argument(c, ev["mspec"])
            if ev["svd_default"] and svd_name == "truncated_svd":
                del v["svd"]
            return v

        if via == "function":
            if ev["retry"]:              # an earlier call with the same objects failed half-way and was caught
                try:
                    invoke(fn, fname, values("no_such_svd", Xt), cform)
                except Exception:
                    pass
            dec = invoke(fn, fname, values(case["svd"], Xt), cform)
        else:
            est = invoke(cls, cname, values("no_such_svd" if ev["retry"] else case["svd"], None), cform, has_first=False)
            if ev["retry"]:              # the estimator failed once (unknown SVD name), is corrected and used again
                try:
                    est.fit_transform(Xt)
                except Exception:
                    pass
                est.svd = case["svd"]
            if via == "refit":       # the same estimator object, first fitted on another tensor (its outcome is not judged)
                prng = np.random.RandomState(case["seed"] % (2**31))
                P = prng.randint(-3, 4, size=tuple(case["pre"])).astype(dtype)
                try:
                    est.fit_transform(tl.tensor(P))
                except Exception:
                    pass
            if via == "fit":         # the other public method of the estimators: fit() returns the estimator
                back = est.fit(Xt) if cform != "kw" else est.fit(tensor=Xt)
                dec = back.decomposition_
            else:
                dec = est.fit_transform(Xt) if cform != "kw" else est.fit_transform(tensor=Xt)
        if c["op"] == "tucker" and ret_err:      # documented: "(tensor, errors)" when return_errors is set
            dec, errs = dec
            if not isinstance(errs, list):
                raise TypeError("return_errors=True did not return a list of errors")
        if c["op"] == "tucker":
            ranks, rec = list(np.shape(dec[0])), tl.tucker_to_tensor(dec)
        elif c["op"] == "tt":
            ranks, rec = list(dec.rank), tl.tt_to_tensor(dec)
        elif c["op"] == "ttm":
            ranks, rec = list(dec.rank), dec.to_tensor()
        else:
            ranks, rec = list(dec.rank), tl.tr_to_tensor(dec)
        out["ranks"] = [int(r) for r in ranks]
        rec = np.asarray(rec).astype(np.float64)      # err^2 is measured in float64 against the float64 tensor
        if rec.shape == X.shape:
            with np.errstate(all="ignore"):
                e2 = float(np.sum((X - rec / unit) ** 2))
                v = q(e2 / den, scale)
                lv = [q(e2 / 4.0 ** g, 10**6) for g in LEVELS]           # err^2 in the units of every level (graded tier)
                out["err2_lv"] = [x if isinstance(x, int) and x >= 0 else 2 * 10**9 for x in lv]
                if t["op"] == "rotated" and not isinstance(v, int):
                    v = 2 * 10**9                                        # huge relative to level 0: still a finite measurement
                relq = q(np.sqrt(e2 / nrm2) if nrm2 > 0 else 0.0, 10**12)
                out["rel_q"] = relq if isinstance(relq, int) else 2 * 10**9
            if isinstance(v, int):
                out["err2_q"], out["fin"] = v, True
    except Exception as ex:
        out["raised"], out["exc"], out["about_rank"] = True, type(ex).__name__, "rank" in str(ex)
    ev["out"] = out
    return ev


# ------------------------------------------------------------------------------------------ domain
def derived(case):
    """Facts about a case used only to *describe* violations (known-finding signatures)."""
    c = case["cfg"]
    d = {"tr_rotation_sensitive": False, "rank_deficient_unfoldings": case["ten"]["op"] == "matching"
         or case["ten"].get("fam") in ("lowmultilinear", "lowtt", "rankdeficient", "integer")}
    # symeig_svd asked for more singular vectors than the tensor has non-zero singular values (F-05a territory)
    p = len(case["ten"]["vals"]) if case["ten"]["op"] in ("matching", "rotated") else None
    d["symeig_zero_sv_requested"] = bool(case["svd"] == "symeig_svd" and p is not None and any(int(r) > p for r in c["rank"]))
    if c["op"] == "tr" and c["mode"] >= 2 and len(c["rank"]) == len(c["shape"]) + 1:
        r = c["rank"]
        d["tr_rotation_sensitive"] = any(r[i - 1] != r[i] for i in range(1, c["mode"]))
    return d


MEASURED_SHAPES = [(3, 4), (5, 4), (6, 6), (3, 4, 5), (4, 4, 4), (2, 5, 3), (5, 2, 4), (2, 3, 4, 3), (3, 3, 3, 3), (4, 2, 2, 4),
                   (2, 3, 2, 3, 2), (2, 2, 2, 3, 3), (3, 2, 2, 2, 2)]


QUICK_INTEGER_SHAPES = [(4, 5), (3, 4, 2), (3, 2, 2, 3), (2, 3, 2, 2, 2)]
# vector-shaped unfoldings: modes of size 1, rank-one requests (every HOOI / TT / TR step is then the SVD of a row or column)
VECTOR_SHAPES = [(1, 5), (4, 1), (1, 4, 1), (3, 4, 1), (1, 3, 2), (3, 4, 2), (2, 1, 3, 1)]


def rank_one_cases(rng, shapes):
    cases = []
    for shape in shapes:
        N = len(shape)
        ten = {"op": "measured", "shape": list(shape), "fam": "rankone", "tseed": rng.randrange(2**31), "lr": 1}
        cfgs = [{"op": "tucker", "shape": list(shape), "rank": [1] * N, "mode": 0},
                {"op": "tucker", "shape": list(shape), "rank": list(shape), "mode": 0},
                {"op": "tt", "shape": list(shape), "rank": [1] * (N + 1), "mode": 0},
                {"op": "tt", "shape": list(shape), "rank": [1] + [30] * (N - 1) + [1], "mode": 0}]
        cfgs += [{"op": "tr", "shape": list(shape), "rank": [1] * (N + 1), "mode": m} for m in range(N)]
        for c in cfgs:
            for j, p2 in enumerate((650, -650, -530, 400, -400, 0)):
                for svd in ("truncated_svd", "symeig_svd"):
                    case = {"cfg": c, "ten": ten, "svd": svd, "dtype": "float64", "pow2": p2,
                            "iters": (0, 1, 50)[(j + len(cases)) % 3] if c["op"] == "tucker" else 0,
                            "rspec": "list", "frac": 0, "via": ("function", "class")[j % 2]}
                    cases.append(in_domain(case))
    return cases


def measured_cases(rng, reps, dtypes, shapes=MEASURED_SHAPES, fams=("generic", "integer", "lowmultilinear", "lowtt", "rankdeficient"),
                   all_dtypes=False):
    cases = []
    for shape in shapes:
        N = len(shape)
        for fam in fams:
            for rep in range(reps):
                ten = {"op": "measured", "shape": list(shape), "fam": fam, "tseed": rng.randrange(2**31), "lr": rng.choice([1, 2, 2, 3])}
                cfgs = []
                for _ in range(3):
                    cfgs.append({"op": "tucker", "shape": list(shape), "rank": [rng.randint(1, d + 1) for d in shape], "mode": 0})
                    cap = [min(int(np.prod(shape[:k])), int(np.prod(shape[k:]))) + 1 for k in range(1, N)]
                    cfgs.append({"op": "tt", "shape": list(shape), "rank": [1] + [rng.randint(1, min(cp, 8)) for cp in cap] + [1], "mode": 0})
                    rr = [rng.randint(1, 3) for _ in range(N)]
                    cfgs.append({"op": "tr", "shape": list(shape), "rank": rr + [rr[0]], "mode": rng.randrange(N)})
                    if N % 2 == 0 and N > 2:
                        n = N // 2
                        ms = [shape[k] * shape[n + k] for k in range(n)]
                        cap = [min(int(np.prod(ms[:k])), int(np.prod(ms[k:]))) + 1 for k in range(1, n)]
                        cfgs.append({"op": "ttm", "shape": list(shape), "rank": [1] + [rng.randint(1, min(cp, 8)) for cp in cap] + [1], "mode": 0})
                # ranks that cover everything (exactness) and minimal ranks
                cfgs.append({"op": "tucker", "shape": list(shape), "rank": list(shape), "mode": 0})
                cfgs.append({"op": "tt", "shape": list(shape), "rank": [1] + [30] * (N - 1) + [1], "mode": 0})
                cfgs.append({"op": "tr", "shape": list(shape), "rank": [1] + [30] * (N - 1) + [1], "mode": rng.randrange(N)})
                dts = [d for d in dtypes if fam == "integer" or not d.startswith("int")]
                for c in cfgs:
                    for svd in ("truncated_svd", "symeig_svd"):
                        for dt in (dts if all_dtypes else [rng.choice(dts)]):
                            case = {"cfg": c, "ten": ten, "svd": svd, "dtype": dt,
                                    "iters": rng.choice([0, 1, 50]) if c["op"] == "tucker" else 0}
                            case.update(rank_form(rng, c, len(cases)))
                            cases.append(in_domain(case))
                # rank specifications the routine resolves itself
                for op in ("tucker", "tt", "tr") + (("ttm",) if N % 2 == 0 else ()):
                    for rs, frac in (("same", 0), ("float", rng.choice([25, 50, 100]))):
                        cases.append({"cfg": {"op": op, "shape": list(shape), "rank": placeholder_rank(op, shape),
                                              "mode": rng.randrange(N) if op == "tr" else 0},
                                      "ten": ten, "svd": "truncated_svd", "dtype": rng.choice(dts), "iters": 0, "rspec": rs, "frac": frac,
                                      "via": rng.choice(["function", "class"])})
    return cases


POW2S = [0, 66, 0, -650, 0, 400, 0, -66, 0, 650, 0, -400, 0, -530]     # every second case keeps the natural magnitude


KNOWN_BAD = {"mode": "exclude"}      # --opt known_bad=include: also run SVDDecomp.KnownBadCombination (to re-test after a repair)


def in_domain(case):
    """Steers a drawn case into SVDDecomp's domain (pow2 needs float64; SVDDecomp.KnownBadCombination)."""
    if case["dtype"] != "float64":
        case["pow2"] = 0
    if case["svd"] == "symeig_svd" and abs(case.get("pow2", 0)) > 400:      # SVDDecomp.Pow2OK: the Gram matrix must be representable
        case["pow2"] = 400 if case["pow2"] > 0 else -400
    return case


def rank_form(rng, c, k):
    """Rotates the documented ways of passing the same rank vector and the call paths."""
    rs = ("list", "tuple", "npint")[k % 3]
    via = ("function", "function", "class", "function", "refit")[k % 5]
    if uniform_rank(c) and k % 2 == 0:
        rs = "int"
    if c["op"] == "tucker" and list(c["rank"]) == list(c["shape"]) and k % 4 != 3:
        rs = "none"
    if k % 13 == 5 and rs in ("list", "tuple", "npint"):
        rs = "ndarray"                       # not a documented form: may be refused (SVDDecomp.Lenient)
    out = {"rspec": rs, "frac": 0, "via": via, "pow2": POW2S[(k // 3) % len(POW2S)],
           "mspec": ("int", "np64", "int", "npintp", "np32", "int", "neg")[k % 7] if c["op"] == "tr" else "int"}
    out.update(cform=("mixed", "pos", "kw")[(k // 2) % 3], retry=(k % 11 == 4), ret_err=(c["op"] == "tucker" and k % 3 == 1),
               svd_default=(k % 4 == 2), zeros=("pos", "neg", "pos", "sub")[(k // 5) % 4])
    if via == "class" and k % 2 == 0:
        out["via"] = via = "fit"
    if via == "refit":
        if rs in ("tuple", "npint"):
            out["rspec"] = "list"            # a mutable list is what an estimator could corrupt between fits
        out["pre"] = [2] * len(c["shape"])
    return out


def run(chk, opts):
    KNOWN_BAD["mode"] = opts.get("known_bad", "exclude")
    thorough = chk.tier == "thorough"
    rng = random.Random(chk.seed * 104729 + 9)
    r, cfgs = chk.export_configs("SVDDecompMC", "SVDDecompMC_thorough.cfg" if thorough else "SVDDecompMC_quick.cfg",
                                 keep=lambda c: c.get("op") in ("matching", "options", "tucker", "tt", "ttm", "tr"))
    chk.notes["design_run"] = r.summary()
    options = [c for c in cfgs if c["op"] == "options"]
    tens, algs = {}, []
    for c in cfgs:
        if c["op"] == "matching":
            tens.setdefault(tuple(c["shape"]), []).append(c)
        elif c["op"] != "options":
            algs.append(c)
    if len(options) != 1 or not tens or not algs:
        chk.machinery.append("design run of SVDDecomp exported no domain")
        return
    svds = sorted(options[0]["svds"]["$set"])
    iters = sorted(options[0]["iters"]["$set"])
    dtypes = sorted(options[0]["dtypes"]["$set"])
    for v in tens.values():
        v.sort(key=lambda t: (len(t["vals"]), t["idx"], t["vals"]))
    algs.sort(key=lambda c: (len(c["shape"]), c["shape"], c["op"], c["mode"], c["rank"]))
    graded = [c for c in algs if tuple(c["shape"]) not in tens]          # SVDDecomp.GradedShapes (no enumerated tensors)
    algs = [c for c in algs if tuple(c["shape"]) in tens]
    cases = []
    for k, c in enumerate(algs):
        pool = tens[tuple(c["shape"])]
        pmax = max(len(t["vals"]) for t in pool)
        full = [t for t in pool if len(t["vals"]) == pmax]
        # every configuration once per SVD method in thorough; in quick one rotating method (all for order <= 3)
        methods = svds if (thorough or len(c["shape"]) <= 3) else [svds[k % len(svds)]]
        for m, svd in enumerate(methods):
            ten = rng.choice(full) if rng.random() < 0.7 else rng.choice(pool)
            case = {"cfg": c, "ten": ten, "svd": svd, "iters": iters[(k + m) % len(iters)] if c["op"] == "tucker" else 0,
                    "dtype": dtypes[(k // 2 + m) % len(dtypes)]}             # matching tensors are integer valued: every dtype applies
            case.update(rank_form(rng, c, k + 7 * m))
            cases.append(in_domain(case))
    # graded tier: configurations of SVDDecomp.GradedShapes on rotated matching tensors with graded spectra
    for k, c in enumerate(graded):
        methods = svds if thorough else [("truncated_svd", "truncated_svd", "symeig_svd", "truncated_svd", "randomized_svd")[k % 5]]
        if c["op"] in ("tt", "ttm"):          # the train is where wide unfoldings are truncated: more tensors, every call path
            methods = list(methods) + ["truncated_svd", "truncated_svd"]
        for m, svd in enumerate(methods):
            ten = draw_rotated(rng, c["shape"])
            if svd == "symeig_svd":
                ten["exps"] = [0] * len(ten["exps"])          # SVDDecomp.GradedOK: the Gram-matrix method is obliged on ungraded spectra
            case = {"cfg": c, "ten": ten, "svd": svd, "dtype": "float64",
                    "iters": iters[(k + m) % len(iters)] if c["op"] == "tucker" else 0}
            case.update(rank_form(rng, c, k + 7 * m))
            if c["op"] in ("tt", "ttm") and m and case["via"] == "function":
                case["via"] = ("class", "refit")[m % 2]
                if case["via"] == "refit":
                    case["pre"] = [2] * len(c["shape"])
                    case["rspec"] = "list" if case["rspec"] in ("tuple", "npint") else case["rspec"]
            case["pow2"] = 0
            cases.append(case)
    # rank specifications the routine resolves itself ('same', float), on a matching tensor of every shape
    for shape in sorted(tens):
        pool = tens[shape]
        for op in ("tucker", "tt", "tr") + (("ttm",) if len(shape) % 2 == 0 else ()):
            for j, (rs, frac) in enumerate((("same", 0), ("float", 25), ("float", 50), ("float", 100))):
                cases.append(in_domain({"cfg": {"op": op, "shape": list(shape), "rank": placeholder_rank(op, shape),
                                      "mode": rng.randrange(len(shape)) if op == "tr" else 0},
                              "ten": rng.choice(pool), "svd": svds[j % len(svds)] if op != "tucker" else "truncated_svd", "iters": 0,
                              "dtype": dtypes[j % len(dtypes)], "rspec": rs, "frac": frac, "via": ("function", "class")[j % 2]}))
    n_exact = len(cases)
    if thorough or opts.get("measured"):
        cases += measured_cases(rng, int(opts.get("reps", 3 if thorough else 1)), dtypes)
    else:
        # quick: a small dense slice of the measured tier -- integer tensors in every dtype (integer arrays must decompose like floats)
        cases += measured_cases(rng, 1, dtypes, shapes=QUICK_INTEGER_SHAPES, fams=("integer",), all_dtypes=True)
    cases += rank_one_cases(rng, VECTOR_SHAPES)
    for k, case in enumerate(cases):
        case["id"] = "C09/%s/%s/%06d" % ("x" if k < n_exact else "m", case["cfg"]["op"], k)
        case["seed"] = rng.randrange(2**31)
    chk.add_cases(cases)
    events = execute_cases(execute, cases, repo=chk.repo, chunksize=16)
    chk.notes["exact_events"] = n_exact
    chk.notes["measured_events"] = len(cases) - n_exact
    chk.notes["domain"] = {"rank_configurations": len(algs), "matching_tensors": sum(len(v) for v in tens.values()), "shapes": len(tens)}
    chk.rule = ("exact tier: every one of the %d rank configurations SVDDecomp enumerates (tucker / tt / ttm / tr x shape x rank vector x "
                "starting mode, incl. requests that must raise) on a seeded matching tensor of that shape (%d in the domain), SVD method "
                "rotating (all three for order <= 3%s); measured tier: %d calls on dense tensors; distinct = (configuration, svd, iters)"
                % (len(algs), sum(len(v) for v in tens.values()), ", all in thorough" if thorough else "", len(cases) - n_exact))
    for e in events:
        if "cfg" in e:
            chk.distinct.add((str(e["cfg"]), e["svd"], e["iters"], e["dtype"], e["rspec"], e["frac"], e["via"], e["mspec"], e.get("cform"), e.get("retry"), e.get("ret_err"), e.get("zeros")))
    for e in events[:1] + events[n_exact - 1:n_exact] + events[-1:]:
        if "cfg" in e:
            chk.sample({k: v for k, v in e.items() if k != "data"})
    commit = repo_commit(chk.repo)
    by_id = {e["id"]: e for e in events if "id" in e}
    for rid, clause, _ in chk.validate("SVDDecompTrace", events, env={"C09_KNOWN_BAD": KNOWN_BAD["mode"]}):
        case = chk.case_by_id.get(rid)
        chk.violations.append({"property": chk.pid, "id": rid, "clause": clause, "case": dict(case, derived=derived(case)),
                               "event": {k: v for k, v in by_id[rid].items() if k != "data"}, "extra": None,
                               "tier": chk.tier, "seed": chk.seed, "repo_commit": commit})
    covered = {str(e["cfg"]) for e in events[:n_exact] if "cfg" in e and e["rspec"] not in ("same", "float")}
    chk.exhaustive = False
    chk.notes["all_rank_configurations_exercised"] = len(covered) == len(algs)
    chk.assumptions += ["NumPy backend only", "matching tensors are sampled from the spec's domain (every rank configuration is exercised)",
                        "measured tier trusts numpy.linalg.svd as the instrument for the unfolding spectra"]
    if thorough:
        chk.trusted.append("numpy.linalg.svd (LAPACK gesdd) as measuring instrument of the measured tier")


def replay(chk, rec, opts):
    case = rec["case"]
    ev = execute(case)
    chk.sample({k: v for k, v in ev.items() if k != "data"})
    for rid, clause, _ in chk.validate("SVDDecompTrace", [ev], env={"C09_KNOWN_BAD": opts.get("known_bad", "include")}):
        chk.violation(rid, clause, case=dict(case, derived=derived(case)), event=ev)
