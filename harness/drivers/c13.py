"""C13 -- NNLS solvers return KKT-optimal non-negative solutions.

Exact tier: problems (integer SPD G, 1-3 integer right-hand sides, l1/ridge penalties) are taken from the
state space of NNLS.tla (exported from TLC; the uniqueness-of-the-KKT-set and optimality theorems are
checked on every one of them in the design run).  Each problem is solved by hals_nnls (cold, warm from
ones, warm from the solution), fista (cold, several warm starts, and with the stopping rule disabled),
active_set_nnls (cold and six kinds of warm start) and admm(n_const=None); NNLSTrace.tla compares with the
exact rational minimiser.  Warm starts (any non-negative array is a legal start): all-ones, all-positive at
two other scales, random non-negative with partial support (two draws), the solution of a DIFFERENT problem
with the same G.  The cheap solvers (active set, fista) get an additional batch of penalty-free problems on
signed Gram matrices so that start-dependent defects of ~10% incidence are caught in the quick tier.  Measured tier: random integer problems with 4-8 unknowns; the harness logs the solution and
the gradient, the spec judges the KKT conditions.
"""
import itertools
import random
import threading

import numpy as np

import contextlib
import io

from ..common import execute_cases, qs
from ..lib_callenv import lay, callenv, bits, invoke, tweak_zeros

S = 10**6
HALS_CAP = 2000          # sweeps when not in exact=True mode (the solver's own stopping rule never fires, see report)
FISTA_CAP = 2000         # iterations (converged long before: rate ~ 1 - 1/sqrt(cond), cond <= 34 / 60)
VARIANTS = [("hals", "cold"), ("hals", "ones"), ("hals", "exact"),
            ("hals", "nzr"), ("hals", "eps"), ("hals", "subopt_a"), ("hals", "trunc"),       # option / chained variants
            ("hals", "far4"), ("hals", "far5"), ("hals", "farc"),                            # legal starts FAR from the solution
            ("hals", "cb_tuple"), ("hals", "cb_float"), ("hals", "cb_false"), ("hals", "cb_true3"),   # callback return values
            ("fista", "cold"), ("fista", "ones"), ("fista", "tol0"), ("fista", "partial_a"), ("fista", "other"),
            ("fista", "eps"), ("fista", "subopt_a"), ("fista", "trunc"), ("fista", "far4"), ("fista", "far5"), ("fista", "farc"),
            ("active_set", "cold"), ("active_set", "ones"), ("active_set", "pos_small"), ("active_set", "pos_big"),
            ("active_set", "partial_a"), ("active_set", "partial_b"), ("active_set", "other"),
            ("active_set", "subopt_a"), ("active_set", "subopt_b"), ("active_set", "trunc1"), ("active_set", "trunc2"),
            ("active_set", "far4"), ("active_set", "far5"), ("active_set", "farc"),
            ("fista", "alias_rhs"), ("active_set", "alias_rhs"),        # the start IS the right-hand side object (when it is >= 0)
            ("admm", "none"), ("admm", "alias_dual")]
# variants run on the extra batch of penalty-free problems reserved for the cheap solvers
CHEAP_VARIANTS = [("active_set", v) for v in ("cold", "ones", "pos_small", "pos_big", "partial_a", "partial_b", "other",
                                               "subopt_a", "subopt_b", "trunc1", "trunc2", "far4", "far5", "farc")] + \
                 [("fista", "partial_b"), ("fista", "pos_big"), ("fista", "subopt_b"), ("fista", "trunc")]
WARM = ("ones", "pos_small", "pos_big", "partial_a", "partial_b", "other", "subopt_a", "subopt_b", "far4", "far5", "farc")
FAR = ("far4", "far5", "farc")      # 1e4 x / 1e5 x random positive; 2^17 on the complement of the solution's support
CBS = ("cb_tuple", "cb_float", "cb_false", "cb_true3")
HALS_CAP_FAR = 4000                 # sweeps for the far starts (linear convergence has 1e5 more to go)
# length of the truncated first run whose output is the start of the second, full run (chained calls)
TRUNC = {("active_set", "trunc1"): 1, ("active_set", "trunc2"): 2, ("fista", "trunc"): 10, ("hals", "trunc"): 2}
EPS = (1, 2)             # the lower bound epsilon = 1/2 of the "eps" variants (NNLS.tla: EpsSet)


def sub_solution(G, B, l1, l2, supports):
    """the exact minimiser of the problem RESTRICTED to the given support (one support per column): optimal on its own
    support, in general not globally.  Input construction only (scipy's nnls on the Cholesky factor)."""
    from scipy.optimize import nnls
    n, k = B.shape
    A = G + 2 * l2 * np.eye(n)
    X = np.zeros((n, k))
    for j in range(k):
        P = sorted(supports[j])
        if P:
            L = np.linalg.cholesky(A[np.ix_(P, P)])
            X[P, j] = nnls(L.T, np.linalg.solve(L, (B[:, j] - l1)[P]))[0]
    return X


def make_start(variant, rng, n, k, other):
    """a legal (non-negative) warm start as k columns of n floats; `other` = solution-like array of another problem."""
    if variant == "ones":
        X = np.ones((n, k))
    elif variant == "pos_small":
        X = 0.01 * (1 + np.arange(n * k).reshape(n, k) % 3)
    elif variant == "pos_big":
        X = 5.0 * (1 + np.array([[rng.random() for _ in range(k)] for _ in range(n)]))
    elif variant in ("partial_a", "partial_b"):
        keep = 0.75 if variant == "partial_a" else 0.5
        X = np.array([[(rng.random() * 2 if rng.random() < keep else 0.0) for _ in range(k)] for _ in range(n)])
    elif variant in ("far4", "far5"):
        X = (1e4 if variant == "far4" else 1e5) * (1 + np.array([[rng.random() for _ in range(k)] for _ in range(n)]))
    elif variant == "farc":
        X = np.where(np.asarray(other, dtype=np.float64) > 0, 0.0, 2.0 ** 17)       # `other` = the solution of this problem
    elif variant in ("other", "subopt_a", "subopt_b"):
        X = np.asarray(other, dtype=np.float64)
    else:
        raise ValueError(variant)
    if variant.startswith("subopt"):
        return [[float(v) for v in X[:, j]] for j in range(k)]        # full precision: must stay optimal on its support
    return [[round(float(v), 6) for v in X[:, j]] for j in range(k)]


def _reference(G, B, l1, l2):
    """float minimiser by enumeration of supports -- used ONLY to build the 'warm from the solution' start."""
    n, k = B.shape
    A = G + 2 * l2 * np.eye(n)
    X = np.zeros((n, k))
    for j in range(k):
        c = B[:, j] - l1
        for r in range(n, -1, -1):
            done = False
            for P in itertools.combinations(range(n), r):
                x = np.zeros(n)
                if P:
                    x[list(P)] = np.linalg.solve(A[np.ix_(P, P)], c[list(P)])
                if np.all(x >= 0) and np.all((A @ x - c)[[i for i in range(n) if i not in P]] >= -1e-12):
                    X[:, j] = x
                    done = True
                    break
            if done:
                break
    return X


MAGS = (-40, -20, 0, 30)     # binary exponents of the change of units (NNLSTrace.tla: MagSet); float32 runs use -15 / 0


ERRSTATE_KEYS = ("divide", "over", "invalid")   # underflow is left at the caller's default: iterates legitimately decay to denormals


def _run(case, G, B, start, n_iter=None, use_cb=True, use_env=True):
    """one call of the solver of this case from `start` (None = the solver's default start).

    Change of units (exact in binary floating point): the design is multiplied by 2^sa and the data by 2^sb, i.e. the
    solver receives UtU = 4^sa G, UtM = 2^(sa+sb) B, l1 * 2^(sa+sb), l2 * 4^sa, a start multiplied by 2^(sb-sa) and the
    options that are absolute by documentation scaled with them (fista/hals `epsilon` in units of x, active_set `tol` in
    units of UtM).  The returned solution is divided by 2^(sb-sa): NNLS.tla's ScaleInvariant theorem says it must be the
    solution of the unscaled problem."""
    from tensorly.solvers.nnls import hals_nnls, fista, active_set_nnls
    from tensorly.solvers.admm import admm
    n, k = B.shape
    sa, sb = case.get("sa", 0), case.get("sb", 0)
    dt = np.dtype(case.get("dt", "float64"))
    xs, ms = 2.0 ** (sb - sa), 2.0 ** (sa + sb)
    Gs = np.ldexp(G, 2 * sa).astype(dt)
    Bs = np.ldexp(B, sa + sb).astype(dt)
    l1, l2 = case["p1"] / case["q"] * ms, case["p2"] / case["q"] * 4.0 ** sa
    # integer-typed normal equations (count / incidence data): the data are integers anyway; warm starts stay floating point
    fdt = dt if dt.kind == "f" else np.dtype("float64")
    st = None if start is None else np.ldexp(np.asarray(start, dtype=np.float64), sb - sa).astype(fdt)
    solver, variant = case["solver"], case["variant"]
    eps = case.get("ep", 0) / case.get("eq", 1) * xs
    # call environment: memory layout of every array argument (hals documents V as mutable: no read-only V there),
    # caller-side error / warning settings, and bit-for-bit comparison of the arguments after the call
    layout, err = case.get("layout", "C"), case.get("err", "default")
    Gs, Bs = lay(Gs, layout), lay(Bs, layout)
    if st is not None:
        st = lay(st, "C" if (layout == "readonly" and solver == "hals") else layout)
    before = (bits(Gs), bits(Bs), None if st is None else bits(st))
    cb = case.get("cb", "none") if use_cb else "none"
    calls = []

    def callback(V, e):
        """documented contract: the solver stops iff the callback returns True"""
        calls.append(1)
        if cb == "tuple":
            return (None, None)                  # what `lambda V, e: (log.append(e), its.append(V))` returns: truthy, not True
        if cb == "float":
            return float(e) + 1.0                # truthy, not True
        if cb == "false":
            return (False, 0, None)[len(calls) % 3]
        if cb == "true3":
            return len(calls) == 3               # True at the third sweep
        raise ValueError(cb)

    # call dimensions (the result must not depend on them): positional / keyword arguments from the frozen signature table,
    # the re-export tensorly.solvers.hals_nnls, None vs 0 for an absent penalty, zeros written as -0.0 / subnormals, the
    # start aliased with UtM, a 1-D UtM for fista, an earlier failed call with the same array objects
    form, spell = case.get("form", "kw"), case.get("spell", "none")
    if use_env:
        if case.get("vals", "plain") != "plain" and dt.kind == "f":
            Gs, Bs = lay(tweak_zeros(Gs, case["vals"]).astype(dt), layout), lay(tweak_zeros(Bs, case["vals"]).astype(dt), layout)
            before = (bits(Gs), bits(Bs), before[2])
        if case.get("alias"):
            st = Bs                                       # the start IS the right-hand side object (legal: it is non-negative)
            before = (before[0], before[1], bits(st))
        if case.get("entry") == "alias":
            import tensorly.solvers as _pkg
            hals_nnls = _pkg.hals_nnls
    absent = 0.0 if spell == "zero" else None
    if use_env and case.get("prev") == "failed":
        try:                                              # refused half-way: a start of the wrong shape, same UtM / UtU objects
            bad = np.ones((n + 1, k + 1), dtype=fdt)
            if solver == "hals":
                hals_nnls(Bs, Gs, V=bad, n_iter_max=2)
            elif solver == "fista":
                fista(Bs, Gs, x=bad, n_iter_max=2)
            elif solver == "active_set":
                active_set_nnls(Bs[:, 0], Gs, x=bad[:, 0], n_iter_max=2)
        except Exception:
            pass
    if solver == "hals":
        if n_iter is not None:
            kw = dict(n_iter_max=n_iter, tol=1e-16)
        elif case["mode"] == "exact":
            kw = dict(exact=True)
        else:
            kw = dict(n_iter_max=case.get("cap", HALS_CAP), tol=1e-16)
        if case.get("nzr"):
            kw["nonzero_rows"] = True
        if case.get("ep", 0):
            kw["epsilon"] = eps
        if cb != "none":
            kw["callback"] = callback
        Vin = None if st is None else st.copy()          # V is documented as mutable: hand over a private copy
        vals = dict(UtM=Bs, UtU=Gs, V=Vin, sparsity_coefficient=(l1 if case["p1"] else absent),
                    ridge_coefficient=(l2 if case["p2"] else absent), **kw)
        with callenv(err, ERRSTATE_KEYS), contextlib.redirect_stdout(io.StringIO()):
            out = invoke(hals_nnls, "hals_nnls", vals, form)
    elif solver == "fista":
        tol = 0.0 if variant == "tol0" else 1e-16
        rhs = Bs[:, 0] if (case.get("vecrhs") and k == 1) else Bs          # fista documents x / UtM of any common shape
        x0 = st if st is None or rhs is Bs else st[:, 0]
        vals = dict(UtM=rhs, UtU=Gs, x=x0, sparsity_coef=(l1 if case["p1"] or spell == "zero" else None), ridge_coef=l2, tol=tol,
                    n_iter_max=n_iter if n_iter is not None else min(case.get("cap", FISTA_CAP), FISTA_CAP),
                    epsilon=eps if case.get("ep", 0) else 1e-8 * xs)        # the documented default floor, in the units of x
        with callenv(err, ERRSTATE_KEYS):
            out = np.asarray(invoke(fista, "fista", vals, form)).reshape(n, k)
    elif solver == "active_set":
        cols = []
        for j in range(k):
            col = Bs[:, j]
            x0 = None if st is None else (col if st is Bs else st[:, j])
            vals = dict(Utm=col, UtU=Gs, x=x0, tol=1e-16 * ms, n_iter_max=n_iter if n_iter is not None else 100)
            with callenv(err, ERRSTATE_KEYS):
                cols.append(np.asarray(invoke(active_set_nnls, "active_set_nnls", vals, form)).reshape(n))
        out = np.stack(cols, axis=1)
    elif solver == "admm":
        zero = np.zeros((k, n), dtype=fdt)
        vals = dict(UtM=Bs.T, UtU=Gs, x=zero, dual_var=(zero if case.get("alias") else np.zeros((k, n), dtype=fdt)), n_const=None)
        with callenv(err, ERRSTATE_KEYS):
            x, _, _ = invoke(admm, "admm", vals, form)
        out = np.asarray(x).T
    else:
        raise ValueError(solver)
    raw = np.asarray(out, dtype=np.float64)
    # "is a row entirely zero" / "is an entry below the bound" are measured on the array the solver returned, in its own
    # units: dividing by 2^(sb-sa) can flush a denormal entry (a row decaying towards 0) to exactly 0
    case["_meas"] = {"zero_rows": int(np.sum(np.all(raw == 0, axis=1))) if raw.ndim == 2 else 0,
                     "nlow": int(np.sum(raw < eps)),
                     "mutG": bits(Gs) != before[0], "mutB": bits(Bs) != before[1],
                     "mutS": st is not None and bits(st) != before[2], "ncalls": len(calls)}
    return raw / xs


def solve(case, G, B):
    """run one solver variant; returns the solution as an (n x k) array (columns = right-hand sides)."""
    n, k = B.shape
    solver, variant = case["solver"], case["variant"]
    start = None if case.get("start") is None else np.array(case["start"], dtype=np.float64).T      # n x k
    if solver == "hals" and variant == "ones":
        start = np.ones((n, k))
    elif solver == "hals" and variant == "exact":
        start = _reference(G, B, case["p1"] / case["q"], case["p2"] / case["q"])
    if case.get("trunc"):
        # chained calls: resume from the output of a truncated run of the same solver
        start = np.asarray(_run(case, G, B, None, n_iter=case["trunc"], use_cb=False), dtype=np.float64).reshape(n, k)
    if case.get("cb") == "true3":
        # the callback returns True at the third sweep: the result must be the iterate after three sweeps
        case["_xref"] = _run(case, G, B, start, n_iter=3, use_cb=False)
    return _run(case, G, B, start)


def _cols(a):
    return [[qs(v, S) for v in a[:, j]] for j in range(a.shape[1])]


def _fine(a):
    """digits 7-12 of each entry: rint((x * 1e6 - rint(x * 1e6)) * 1e6), so that x = (y + f * 1e-6) * 1e-6 to 1e-12"""
    out = []
    for j in range(a.shape[1]):
        col = []
        for v in a[:, j]:
            v6 = float(v) * S
            col.append(int(round((v6 - round(v6)) * S)) if np.isfinite(v6) and abs(v6) < 2e9 else 0)
        out.append(col)
    return out


def gen_problem(case):
    """measured tier: G = A^T A + I (integer A, cond <= cond_max), B = A^T M - shift (integers)."""
    rng = np.random.default_rng(case["gen_seed"])
    n, k = case["n"], case["k"]
    while True:
        A = rng.integers(-2, 3, size=(n + 2, n)).astype(np.float64)
        G = A.T @ A + np.eye(n)
        cond = float(np.linalg.cond(G))
        if cond <= case["cond_max"]:
            break
    B = A.T @ rng.integers(-3, 4, size=(n + 2, k)).astype(np.float64) - rng.integers(0, 4, size=(1, k))
    return G, B, cond


def execute(case):
    case = dict(case)
    if case["kind"] == "exact":
        G = np.array(case["G"], dtype=np.float64)
        B = np.array(case["B"], dtype=np.float64).T            # n x k
    else:
        G, B, cond = gen_problem(case)
    n, k = B.shape
    ev = {"id": case["id"], "kind": case["kind"], "solver": case["solver"], "variant": case["variant"], "mode": case["mode"],
          "p1": case["p1"], "p2": case["p2"], "q": case["q"], "raised": False, "exc": "", "size": 0, "nlow": 0, "x": [], "xf": [],
          "nzr": bool(case.get("nzr", False)), "zero_rows": 0, "ep": case.get("ep", 0), "eq": case.get("eq", 1),
          "sa": case.get("sa", 0), "sb": case.get("sb", 0), "dt": case.get("dt", "float64"),
          "layout": case.get("layout", "C"), "err": case.get("err", "default"), "cb": case.get("cb", "none"),
          "mutG": False, "mutB": False, "mutS": False, "xref": [], "xreff": [],
          "form": case.get("form", "kw"), "entry": case.get("entry", "home"), "spell": case.get("spell", "none"),
          "vals": case.get("vals", "plain"), "prev": case.get("prev", "none"), "alias": bool(case.get("alias", False)),
          "vecrhs": bool(case.get("vecrhs", False))}
    if case["kind"] == "exact":
        ev.update(G=case["G"], B=case["B"])
    else:
        ev.update(n=n, k=k, cond=int(np.ceil(cond)), g=[], Gm=[[int(v) for v in r] for r in G], Bm=[[int(v) for v in B[:, j]] for j in range(k)])
    try:
        X = np.asarray(solve(case, G, B), dtype=np.float64)
        ev["size"] = int(X.size)
        if X.shape == (n, k):
            ev["x"] = _cols(X)
            ev["xf"] = _fine(X)
            ev.update(mutG=bool(case["_meas"]["mutG"]), mutB=bool(case["_meas"]["mutB"]), mutS=bool(case["_meas"]["mutS"]))
            if "_xref" in case:
                ev["xref"], ev["xreff"] = _cols(case["_xref"]), _fine(case["_xref"])
            ev["nlow"] = case["_meas"]["nlow"]                  # entries below the bound (0 or epsilon), on the returned floats
            ev["zero_rows"] = case["_meas"]["zero_rows"]
            if case["kind"] == "kkt":
                l1, l2 = case["p1"] / case["q"], case["p2"] / case["q"]
                ev["g"] = _cols(G @ X - B + l1 + 2 * l2 * X)
        else:
            ev["size"] = -1
    except Exception as ex:
        ev.update(raised=True, exc=type(ex).__name__)
    return ev


def build_cases(chk, cfgs, thorough):
    rng = random.Random(chk.seed)
    groups = {}
    for c in cfgs:
        if c["op"] != "nnls":
            continue
        key = (tuple(tuple(r) for r in c["G"]), c["p1"], c["p2"], c["q"])
        groups.setdefault(key, []).append(list(c["b"]))
    nprob_domain = sum(len(v) for v in groups.values())
    problems = []
    for key in sorted(groups):
        G, p1, p2, q_ = key
        bs = sorted(groups[key])
        n = len(G)
        extra = G == ((19, 9), (9, 19))
        if thorough:
            if rng.random() > {1: 1.0, 2: 0.25, 3: 0.06}[n] and not extra:
                continue
            rng.shuffle(bs)
            for t in range(0, len(bs), 3):
                problems.append((G, p1, p2, q_, bs[t:t + 3]))
        else:
            rate = {1: 1.0, 2: 0.45, 3: 0.13}[n]
            if rng.random() > rate and not extra:
                continue
            k = rng.choice((1, 2, 3))
            cols = rng.sample(bs, k)
            if extra:
                cols = [[1, 3]] + cols[:2]
            problems.append((G, p1, p2, q_, cols))
    cases = []
    n_exact_mode = 0

    def other_solution(G, p1, p2, q_, cols):
        """solution of a DIFFERENT problem with the same G (right-hand sides negated and rotated, or b = diag(G))."""
        Gf = np.array(G, dtype=np.float64)
        n = len(G)
        alt = [[-c[(i + 1) % n] if any(c) else G[i][i] for i in range(n)] for c in cols]
        return _reference(Gf, np.array(alt, dtype=np.float64).T, p1 / q_, p2 / q_)

    def random_supports(n, k):
        """one random proper subset of the unknowns per column (possibly empty)"""
        return [[i for i in range(n) if rng.random() < 0.5][: n - 1] if n > 1 else [] for _ in range(k)]

    def draw_mag():
        """binary exponents (sa, sb) of the change of units of one problem: 40% unscaled, else any of the 16 pairs"""
        return (0, 0) if rng.random() < 0.4 else (rng.choice(MAGS), rng.choice(MAGS))

    def draw_env():
        """call environment and call form of one call.  Every value of each dimension occurs; the dimensions are not crossed:
        half the calls are plain (apart from positional / keyword arguments, which alternate everywhere), the others change
        exactly one thing: the memory layout, the caller's error state, the entry point, the spelling of an absent penalty,
        the way zeros are written, a 1-D right-hand side, or a previous failed call."""
        env = {"layout": "C", "err": "default", "form": rng.choice(("pos", "kw"))}
        r = rng.random()
        if r < 0.45:
            return env
        one = rng.choice(("layout", "layout", "err", "err", "entry", "spell", "negzero", "subnormal", "vecrhs", "prev"))
        if one == "layout":
            env["layout"] = rng.choice(("F", "strided", "readonly"))
        elif one == "err":
            env["err"] = rng.choice(("ignore", "raise", "warnerr"))
        elif one == "entry":
            env["entry"] = "alias"
        elif one == "spell":
            env["spell"] = "zero"
        elif one in ("negzero", "subnormal"):
            env["vals"] = one
        elif one == "vecrhs":
            env["vecrhs"] = True
        else:
            env["prev"] = "failed"
        return env

    def draw_units():
        """(dtype of UtU / UtM, sa, sb): a quarter of the problems are posed with integer-typed normal equations"""
        if rng.random() < 0.25:
            return rng.choice(("int64", "int32")), 0, 0
        return ("float64",) + draw_mag()

    def add_exact(G, p1, p2, q_, cols, variants, exact_mode, batch, pi=0):
        nonlocal n_exact_mode
        dt, sa, sb = draw_units()
        Gf = np.array(G, dtype=np.float64)
        Bf = np.array(cols, dtype=np.float64).T
        n, k = len(G), len(cols)
        ls = np.linalg.solve(Gf, Bf)
        extra = tuple(tuple(r) for r in G) == ((19, 9), (9, 19))
        sol = _reference(Gf, Bf, p1 / q_, p2 / q_)           # used for the "farc" start and the rows_equal flag only
        flags = {"ls_nonpos": bool(np.all(ls <= 0)), "batch": batch,
                 "signed": any(G[i][j] < 0 for i in range(n) for j in range(n)),
                 "rows_equal": bool(np.all(np.abs(sol - sol[0:1, :]) < 1e-9))}
        other = None
        for solver, variant in variants:
            if solver in ("active_set", "admm") and (p1 or p2):
                continue
            opt = {}
            if solver == "hals" and variant in ("nzr", "eps", "subopt_a", "trunc"):
                # hals is expensive (every run goes to its cap): nonzero_rows on every multi-rhs problem, the others on a third each
                if variant == "nzr" and k < 2:
                    continue
                if variant != "nzr" and pi % 3 != ("eps", "subopt_a", "trunc").index(variant):
                    continue
            if solver == "hals" and variant in FAR:
                if pi % 3 != FAR.index(variant):
                    continue
                opt["cap"] = HALS_CAP_FAR
            if variant.startswith("cb_"):
                if pi % 2 != CBS.index(variant) % 2:
                    continue
                opt["cb"] = variant[3:]
            if variant in ("alias_rhs", "alias_dual"):
                # a legal start must be non-negative; with the design in other units (sa # 0) UtM is 4^sa away from the
                # scale of x and would be an absurdly far start
                if variant == "alias_rhs" and (sa != 0 or not all(x >= 0 for col in cols for x in col)):
                    continue
                opt["alias"] = True
            if variant == "nzr":
                opt["nzr"] = True
            if variant == "eps":
                if extra:
                    continue
                opt.update(ep=EPS[0], eq=EPS[1])
            if (solver, variant) in TRUNC:
                opt["trunc"] = TRUNC[(solver, variant)]
            # exact=True (50 000 sweeps on the clean tree) on a few problems, far starts included
            mode = "exact" if (solver == "hals" and exact_mode and (not opt or variant in FAR)) else "cap"
            n_exact_mode += mode == "exact"
            start = None
            if variant in WARM and not (solver == "hals" and variant == "ones"):
                src = None
                if variant == "other":
                    if other is None:
                        other = other_solution(G, p1, p2, q_, cols)
                    src = other
                elif variant.startswith("subopt"):
                    src = sub_solution(Gf, Bf, p1 / q_, p2 / q_, random_supports(n, k))
                elif variant == "farc":
                    src = sol
                start = make_start(variant, rng, n, k, src)
            if variant.startswith("cb_") and pi % 4 >= 2:
                start = make_start("ones", rng, n, k, None)
            env = draw_env()
            if opt.get("alias"):
                env.update(layout="C", vals="plain")          # the aliased start is the laid-out UtM itself
            if solver != "fista" or k != 1:
                env.pop("vecrhs", None)
            opt.update(env)
            c = {"id": "C13/%s-%s/%06d" % (solver, variant, len(cases)), "kind": "exact", "solver": solver, "variant": variant,
                 "mode": mode, "G": [list(r) for r in G], "B": cols, "p1": p1, "p2": p2, "q": q_, "start": start, "flags": flags,
                 "sa": sa, "sb": sb, "dt": dt}
            c.update(opt)
            cases.append(c)

    for pi, (G, p1, p2, q_, cols) in enumerate(problems):
        add_exact(G, p1, p2, q_, cols, VARIANTS, pi % (97 if thorough else 23) == 0, "main", pi)
    # extra batch for the cheap solvers: penalty-free problems on Gram matrices with a negative off-diagonal entry
    # ("signed designs"), 2-3 unknowns, 2-3 right-hand sides each
    signed_groups = [key for key in sorted(groups) if key[1] == 0 and key[2] == 0 and len(key[0]) >= 2
                     and any(v < 0 for row in key[0] for v in row)]
    for t in range(700 if thorough else 170):
        G, p1, p2, q_ = rng.choice(signed_groups)
        add_exact(G, p1, p2, q_, rng.sample(sorted(groups[(G, p1, p2, q_)]), rng.choice((2, 3))), CHEAP_VARIANTS, False, "cheap")
    n_exact = len(cases)
    # measured tier
    pens = [(0, 0, 1), (1, 0, 2), (0, 1, 2), (2, 1, 2)]
    n_full = 160 if thorough else 8
    n_cheap = 240 if thorough else 48
    for t in range(n_full + n_cheap):
        cheap = t >= n_full
        n, k = rng.randint(4, 8), (rng.randint(1, 3) if cheap else rng.randint(1, 5))
        p1, p2, q_ = (0, 0, 1) if cheap else pens[t % 4]
        gs = rng.randrange(2**31)
        if t % 3 == 2:              # single precision, design in small units (squared column norms below float32 eps) or not
            dt, (sa, sb) = "float32", (rng.choice((-15, -15, 0)), rng.choice((-15, 0)))
        else:
            dt, sa, sb = draw_units()
        Gm, Bm, _ = gen_problem({"gen_seed": gs, "n": n, "k": k, "cond_max": 60.0})
        kflags = {"ls_nonpos": bool(np.all(np.linalg.solve(Gm, Bm) <= 0)), "batch": "cheap" if cheap else "main", "signed": True}
        ksol = sub_solution(Gm, Bm, p1 / q_, p2 / q_, [list(range(n))] * k)       # "farc" start and rows_equal flag only
        kflags["rows_equal"] = bool(np.all(np.abs(ksol - ksol[0:1, :]) < 1e-9))
        # solution-like start of another problem: clipped least-squares solution for the reversed, negated right-hand sides
        other = np.clip(np.linalg.solve(Gm, -Bm[::-1, :]), 0, None)
        for solver, variant in (CHEAP_VARIANTS if cheap else VARIANTS):
            if solver in ("active_set", "admm") and (p1 or p2):
                continue
            if variant in ("exact", "eps", "alias_rhs"):
                continue           # no exact reference beyond 3 unknowns; the epsilon bound is judged in the exact tier only
            if solver == "hals" and ((variant == "nzr" and k < 2) or variant in ("subopt_a", "trunc") and t % 2):
                continue
            if solver == "hals" and variant in FAR and t % 3 != FAR.index(variant):
                continue
            opt = {}
            if variant == "nzr":
                opt["nzr"] = True
            if (solver, variant) in TRUNC:
                opt["trunc"] = TRUNC[(solver, variant)]
            if variant.startswith("cb_"):
                if t % 2 != CBS.index(variant) % 2:
                    continue
                opt["cb"] = variant[3:]
            env = draw_env()
            if solver != "fista" or k != 1:
                env.pop("vecrhs", None)
            if variant == "alias_dual":
                opt["alias"] = True
            opt.update(env)
            start = None
            if variant in WARM and not (solver == "hals" and variant == "ones"):
                src = other
                if variant.startswith("subopt"):
                    src = sub_solution(Gm, Bm, p1 / q_, p2 / q_, [[i for i in range(n) if rng.random() < 0.5][: n - 1] for _ in range(k)])
                elif variant == "farc":
                    src = ksol
                start = make_start(variant, rng, n, k, src)
            c = {"id": "C13/kkt-%s-%s/%06d" % (solver, variant, len(cases)), "kind": "kkt", "solver": solver, "variant": variant,
                 "mode": "cap", "cap": 6000, "n": n, "k": k, "p1": p1, "p2": p2, "q": q_, "gen_seed": gs, "cond_max": 60.0,
                 "start": start, "flags": kflags, "sa": sa, "sb": sb, "dt": dt}
            c.update(opt)
            cases.append(c)
    return cases, len(problems), nprob_domain, n_exact, n_exact_mode


def run(chk, opts):
    thorough = chk.tier == "thorough"
    box = {}
    th = threading.Thread(target=lambda: box.update(r=chk.design("NNLS", "NNLSMC_thorough.cfg" if thorough else "NNLSMC_quick.cfg",
                                                                coverage=False)))
    th.start()
    rx, cfgs = chk.export_configs("NNLS", "NNLSMC_export_thorough.cfg" if thorough else "NNLSMC_export.cfg", keep=lambda c: True, workers=4)
    cases, nprob, ndomain, n_exact, n_exact_mode = build_cases(chk, cfgs, thorough)
    chk.add_cases(cases)
    # expensive runs (hals exact=True: 50 000 sweeps) first, so that the pool is balanced
    order = sorted(range(len(cases)), key=lambda i: (cases[i]["mode"] != "exact", cases[i]["kind"] != "kkt", i))
    evs = execute_cases(execute, [cases[i] for i in order], repo=chk.repo, chunksize=4)
    events = [None] * len(cases)
    for i, e in zip(order, evs):
        events[i] = e
    chk.rule = ("%d problems (G, 1-3 right-hand sides, l1/ridge penalty) drawn with seed %d from the %d single-rhs problems of NNLS.tla's "
                "state space (all of them are model-checked), each through hals (cold/ones/solution; %d runs with exact=True, others "
                "n_iter_max=%d, tol=1e-16), fista (cold + warm starts tol=1e-16; tol=0), active_set (cold + 6 warm starts), admm(n_const=None), "
                "plus a batch of penalty-free signed-Gram problems for active_set/fista warm starts: %d exact events; "
                "+ %d measured-tier events (4-8 unknowns, KKT residuals); distinct = distinct (problem, solver, start)"
                % (nprob, chk.seed, ndomain, n_exact_mode, HALS_CAP, n_exact, len(cases) - n_exact))
    for c in cases:
        chk.distinct.add(str({k: v for k, v in c.items() if k not in ("id", "flags")}))
    for e in (events[0], events[n_exact // 2], events[-1]):
        chk.sample(e)
    by_id = {e.get("id"): e for e in events}
    for rid, clause, _ in chk.validate("NNLSTrace", events):
        chk.violation(rid, clause, event=by_id.get(rid))
    th.join()
    if "r" not in box:
        chk.machinery.append("design run of NNLS.tla did not complete")
    else:
        chk.notes["design_run"] = box["r"].summary()
        if box["r"].distinct != rx.distinct:
            chk.machinery.append("theorem run and export run of NNLS.tla enumerated different domains (%d vs %d states)"
                                 % (box["r"].distinct, rx.distinct))
    chk.exhaustive = False      # problems are sampled from the model-checked domain
    chk.assumptions += [
        "NumPy backend only",
        "exact tier: integer SPD Gram matrices with 1-3 unknowns (cond <= 34, plus the [[19,9],[9,19]] reproducer), integer right-hand sides",
        "solutions are logged to 12 decimals and compared with the exact rational minimiser at 1e-10 (active_set, admm: direct solves) / 2e-6 (hals at tol=1e-16 or exact=True, fista with its 1e-8 floor) -- named from what the unchanged solvers achieve; measured tier judged by KKT residuals <= 5e-5 (cond <= 60)",
        "far starts: 1e4 x / 1e5 x random positive and 2^17 on the complement of the solution's support, for hals (4000 sweeps, a few with exact=True), fista and active_set",
        "magnitude: problems are also posed in other units (design * 2^a, data * 2^b, a, b in {-40,-20,0,30}; float32 with a = -15 in the measured tier); "
        "options that are absolute by documentation (fista/hals epsilon, active_set tol) are scaled with the units -- the documented absolute defaults "
        "(fista epsilon=1e-8 floor, active_set tol=1e-7 on the gradient) are NOT exercised in small units",
        "call environment: every call draws a memory layout (C / Fortran / strided / read-only) for UtU, UtM and the start (hals' V is documented mutable: never read-only) and caller-side np.errstate(divide/over/invalid = ignore|raise) or warnings-as-errors; UtU, UtM (and the start of fista / active_set) must be bit-identical after the call",
        "call forms: arguments positional / by published keyword (frozen signature table, alternating), tensorly.solvers.hals_nnls re-export, None vs 0 for an absent penalty, zeros written as -0.0 / +/-5e-324, 1-D UtM for fista, start aliased with UtM (fista, active_set) and x aliased with dual_var (admm), an earlier refused call on the same arrays",
        "hals callback: return values that are falsy or truthy-but-not-True must not stop the solver; True at sweep 3 must return the iterate after 3 sweeps",
        "dtype: a quarter of the problems pass int64 / int32 UtU and UtM (with floating-point warm starts); float32 in the measured tier",
        "options: hals nonzero_rows=True (no all-zero row unless the solution is zero), epsilon=1/2 for hals and fista (minimiser over x >= epsilon); "
        "chained starts: output of a truncated run of the same solver, exact minimiser restricted to a random support",
        "warm starts: ones, two other all-positive scales, two random partial-support draws, the solution of a different problem (active set: all; fista: a subset; hals: ones and the solution)",
        "hals_nnls is run with n_iter_max=2000/6000, tol=1e-16 except for a subset with exact=True (its stopping rule never fires: every run goes to the cap)",
        "the 'warm from the solution' start is built by the harness with numpy (input construction only)",
    ]


def replay(chk, rec, opts):
    case = rec["case"]
    ev = execute(case)
    chk.sample(ev)
    for rid, clause, _ in chk.validate("NNLSTrace", [ev]):
        chk.violation(rid, clause, case=case, event=ev)
