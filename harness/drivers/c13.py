"""C13 -- NNLS solvers return KKT-optimal non-negative solutions.

Exact tier: problems (integer SPD G, 1-3 integer right-hand sides, l1/ridge penalties) are taken from the
state space of NNLS.tla (exported from TLC; the uniqueness-of-the-KKT-set and optimality theorems are
checked on every one of them in the design run).  Each problem is solved by hals_nnls (cold, warm from
ones, warm from the solution), fista (cold, several warm starts, and with the stopping rule disabled),
active_set_nnls (cold and six kinds of warm start) and admm(n_const=None); NNLSTrace.tla compares with the
exact rational minimiser.  Warm starts (any non-negative array is a legal start): all-ones, all-positive at
two other scales, random non-negative with partial support (two draws), the solution of a DIFFERENT problem
with the same G.  The cheap solvers (active set, fista) get an additional batch of penalty-free problems on
signed Gram matrices so that start-dependent defects of ~10% incidence are caught in the quick tier.  Measured tier: random integer problems with 4-8 unknowns; the harness logs the solution and
the gradient, the spec judges the KKT conditions.
"""
import itertools
import random
import threading

import numpy as np

from ..common import execute_cases, qs

S = 10**6
HALS_CAP = 2000          # sweeps when not in exact=True mode (the solver's own stopping rule never fires, see report)
FISTA_CAP = 5000
VARIANTS = [("hals", "cold"), ("hals", "ones"), ("hals", "exact"),
            ("fista", "cold"), ("fista", "ones"), ("fista", "tol0"), ("fista", "partial_a"), ("fista", "other"),
            ("active_set", "cold"), ("active_set", "ones"), ("active_set", "pos_small"), ("active_set", "pos_big"),
            ("active_set", "partial_a"), ("active_set", "partial_b"), ("active_set", "other"), ("admm", "none")]
# variants run on the extra batch of penalty-free problems reserved for the cheap solvers
CHEAP_VARIANTS = [("active_set", v) for v in ("cold", "ones", "pos_small", "pos_big", "partial_a", "partial_b", "other")] + \
                 [("fista", "partial_b"), ("fista", "pos_big")]
WARM = ("ones", "pos_small", "pos_big", "partial_a", "partial_b", "other")


def make_start(variant, rng, n, k, other):
    """a legal (non-negative) warm start as k columns of n floats; `other` = solution-like array of another problem."""
    if variant == "ones":
        X = np.ones((n, k))
    elif variant == "pos_small":
        X = 0.01 * (1 + np.arange(n * k).reshape(n, k) % 3)
    elif variant == "pos_big":
        X = 5.0 * (1 + np.array([[rng.random() for _ in range(k)] for _ in range(n)]))
    elif variant in ("partial_a", "partial_b"):
        keep = 0.75 if variant == "partial_a" else 0.5
        X = np.array([[(rng.random() * 2 if rng.random() < keep else 0.0) for _ in range(k)] for _ in range(n)])
    elif variant == "other":
        X = np.asarray(other, dtype=np.float64)
    else:
        raise ValueError(variant)
    return [[round(float(v), 6) for v in X[:, j]] for j in range(k)]


def _reference(G, B, l1, l2):
    """float minimiser by enumeration of supports -- used ONLY to build the 'warm from the solution' start."""
    n, k = B.shape
    A = G + 2 * l2 * np.eye(n)
    X = np.zeros((n, k))
    for j in range(k):
        c = B[:, j] - l1
        for r in range(n, -1, -1):
            done = False
            for P in itertools.combinations(range(n), r):
                x = np.zeros(n)
                if P:
                    x[list(P)] = np.linalg.solve(A[np.ix_(P, P)], c[list(P)])
                if np.all(x >= 0) and np.all((A @ x - c)[[i for i in range(n) if i not in P]] >= -1e-12):
                    X[:, j] = x
                    done = True
                    break
            if done:
                break
    return X


def solve(case, G, B):
    """run one solver variant; returns the solution as an (n x k) array (columns = right-hand sides)."""
    from tensorly.solvers.nnls import hals_nnls, fista, active_set_nnls
    from tensorly.solvers.admm import admm
    n, k = B.shape
    l1, l2 = case["p1"] / case["q"], case["p2"] / case["q"]
    solver, variant = case["solver"], case["variant"]
    if solver == "hals":
        V = None
        if variant == "ones":
            V = np.ones((n, k))
        elif variant == "exact":
            V = _reference(G, B, l1, l2)
        kw = dict(exact=True) if case["mode"] == "exact" else dict(n_iter_max=case.get("cap", HALS_CAP), tol=1e-16)
        return hals_nnls(B.copy(), G.copy(), V=V, sparsity_coefficient=(l1 if case["p1"] else None),
                         ridge_coefficient=(l2 if case["p2"] else None), **kw)
    start = None if case.get("start") is None else np.array(case["start"], dtype=np.float64).T      # n x k
    if solver == "fista":
        x0 = start
        tol = 0.0 if variant == "tol0" else 1e-16
        return fista(B.copy(), G.copy(), x=x0, sparsity_coef=l1, ridge_coef=l2, tol=tol, n_iter_max=case.get("cap", FISTA_CAP))
    if solver == "active_set":
        cols = []
        for j in range(k):
            x0 = None if start is None else start[:, j].copy()
            cols.append(np.asarray(active_set_nnls(B[:, j].copy(), G.copy(), x=x0, tol=1e-16, n_iter_max=100)).reshape(n))
        return np.stack(cols, axis=1)
    if solver == "admm":
        x, _, _ = admm(B.T.copy(), G.copy(), np.zeros((k, n)), np.zeros((k, n)), n_const=None)
        return np.asarray(x).T
    raise ValueError(solver)


def _cols(a):
    return [[qs(v, S) for v in a[:, j]] for j in range(a.shape[1])]


def gen_problem(case):
    """measured tier: G = A^T A + I (integer A, cond <= cond_max), B = A^T M - shift (integers)."""
    rng = np.random.default_rng(case["gen_seed"])
    n, k = case["n"], case["k"]
    while True:
        A = rng.integers(-2, 3, size=(n + 2, n)).astype(np.float64)
        G = A.T @ A + np.eye(n)
        cond = float(np.linalg.cond(G))
        if cond <= case["cond_max"]:
            break
    B = A.T @ rng.integers(-3, 4, size=(n + 2, k)).astype(np.float64) - rng.integers(0, 4, size=(1, k))
    return G, B, cond


def execute(case):
    if case["kind"] == "exact":
        G = np.array(case["G"], dtype=np.float64)
        B = np.array(case["B"], dtype=np.float64).T            # n x k
    else:
        G, B, cond = gen_problem(case)
    n, k = B.shape
    ev = {"id": case["id"], "kind": case["kind"], "solver": case["solver"], "variant": case["variant"], "mode": case["mode"],
          "p1": case["p1"], "p2": case["p2"], "q": case["q"], "raised": False, "exc": "", "size": 0, "nneg": 0, "x": []}
    if case["kind"] == "exact":
        ev.update(G=case["G"], B=case["B"])
    else:
        ev.update(n=n, k=k, cond=int(np.ceil(cond)), g=[], Gm=[[int(v) for v in r] for r in G], Bm=[[int(v) for v in B[:, j]] for j in range(k)])
    try:
        X = np.asarray(solve(case, G, B), dtype=np.float64)
        ev["size"] = int(X.size)
        if X.shape == (n, k):
            ev["x"] = _cols(X)
            ev["nneg"] = int(np.sum(X < 0))
            if case["kind"] == "kkt":
                l1, l2 = case["p1"] / case["q"], case["p2"] / case["q"]
                ev["g"] = _cols(G @ X - B + l1 + 2 * l2 * X)
        else:
            ev["size"] = -1
    except Exception as ex:
        ev.update(raised=True, exc=type(ex).__name__)
    return ev


def build_cases(chk, cfgs, thorough):
    rng = random.Random(chk.seed)
    groups = {}
    for c in cfgs:
        if c["op"] != "nnls":
            continue
        key = (tuple(tuple(r) for r in c["G"]), c["p1"], c["p2"], c["q"])
        groups.setdefault(key, []).append(list(c["b"]))
    nprob_domain = sum(len(v) for v in groups.values())
    problems = []
    for key in sorted(groups):
        G, p1, p2, q_ = key
        bs = sorted(groups[key])
        n = len(G)
        extra = G == ((19, 9), (9, 19))
        if thorough:
            if rng.random() > {1: 1.0, 2: 0.35, 3: 0.08}[n] and not extra:
                continue
            rng.shuffle(bs)
            for t in range(0, len(bs), 3):
                problems.append((G, p1, p2, q_, bs[t:t + 3]))
        else:
            rate = {1: 1.0, 2: 0.45, 3: 0.13}[n]
            if rng.random() > rate and not extra:
                continue
            k = rng.choice((1, 2, 3))
            cols = rng.sample(bs, k)
            if extra:
                cols = [[1, 3]] + cols[:2]
            problems.append((G, p1, p2, q_, cols))
    cases = []
    n_exact_mode = 0

    def other_solution(G, p1, p2, q_, cols):
        """solution of a DIFFERENT problem with the same G (right-hand sides negated and rotated, or b = diag(G))."""
        Gf = np.array(G, dtype=np.float64)
        n = len(G)
        alt = [[-c[(i + 1) % n] if any(c) else G[i][i] for i in range(n)] for c in cols]
        return _reference(Gf, np.array(alt, dtype=np.float64).T, p1 / q_, p2 / q_)

    def add_exact(G, p1, p2, q_, cols, variants, exact_mode, batch):
        nonlocal n_exact_mode
        Gf = np.array(G, dtype=np.float64)
        n, k = len(G), len(cols)
        ls = np.linalg.solve(Gf, np.array(cols, dtype=np.float64).T)
        flags = {"ls_nonpos": bool(np.all(ls <= 0)), "batch": batch,
                 "signed": any(G[i][j] < 0 for i in range(n) for j in range(n))}
        other = None
        for solver, variant in variants:
            if solver in ("active_set", "admm") and (p1 or p2):
                continue
            mode = "exact" if (solver == "hals" and exact_mode) else "cap"
            n_exact_mode += mode == "exact"
            start = None
            if solver != "hals" and variant in WARM:
                if variant == "other" and other is None:
                    other = other_solution(G, p1, p2, q_, cols)
                start = make_start(variant, rng, n, k, other)
            cases.append({"id": "C13/%s-%s/%06d" % (solver, variant, len(cases)), "kind": "exact", "solver": solver, "variant": variant,
                          "mode": mode, "G": [list(r) for r in G], "B": cols, "p1": p1, "p2": p2, "q": q_, "start": start,
                          "flags": flags})

    for pi, (G, p1, p2, q_, cols) in enumerate(problems):
        add_exact(G, p1, p2, q_, cols, VARIANTS, pi % (97 if thorough else 23) == 0, "main")
    # extra batch for the cheap solvers: penalty-free problems on Gram matrices with a negative off-diagonal entry
    # ("signed designs"), 2-3 unknowns, 2-3 right-hand sides each
    signed_groups = [key for key in sorted(groups) if key[1] == 0 and key[2] == 0 and len(key[0]) >= 2
                     and any(v < 0 for row in key[0] for v in row)]
    for t in range(700 if thorough else 170):
        G, p1, p2, q_ = rng.choice(signed_groups)
        add_exact(G, p1, p2, q_, rng.sample(sorted(groups[(G, p1, p2, q_)]), rng.choice((2, 3))), CHEAP_VARIANTS, False, "cheap")
    n_exact = len(cases)
    # measured tier
    pens = [(0, 0, 1), (1, 0, 2), (0, 1, 2), (2, 1, 2)]
    n_full = 160 if thorough else 8
    n_cheap = 240 if thorough else 48
    for t in range(n_full + n_cheap):
        cheap = t >= n_full
        n, k = rng.randint(4, 8), (rng.randint(1, 3) if cheap else rng.randint(1, 5))
        p1, p2, q_ = (0, 0, 1) if cheap else pens[t % 4]
        gs = rng.randrange(2**31)
        Gm, Bm, _ = gen_problem({"gen_seed": gs, "n": n, "k": k, "cond_max": 60.0})
        kflags = {"ls_nonpos": bool(np.all(np.linalg.solve(Gm, Bm) <= 0)), "batch": "cheap" if cheap else "main", "signed": True}
        # solution-like start of another problem: clipped least-squares solution for the reversed, negated right-hand sides
        other = np.clip(np.linalg.solve(Gm, -Bm[::-1, :]), 0, None)
        for solver, variant in (CHEAP_VARIANTS if cheap else VARIANTS):
            if solver in ("active_set", "admm") and (p1 or p2):
                continue
            if variant == "exact":
                continue           # no exact reference beyond 3 unknowns
            start = make_start(variant, rng, n, k, other) if (solver != "hals" and variant in WARM) else None
            cases.append({"id": "C13/kkt-%s-%s/%06d" % (solver, variant, len(cases)), "kind": "kkt", "solver": solver, "variant": variant,
                          "mode": "cap", "cap": 6000, "n": n, "k": k, "p1": p1, "p2": p2, "q": q_, "gen_seed": gs, "cond_max": 60.0,
                          "start": start, "flags": kflags})
    return cases, len(problems), nprob_domain, n_exact, n_exact_mode


def run(chk, opts):
    thorough = chk.tier == "thorough"
    box = {}
    th = threading.Thread(target=lambda: box.update(r=chk.design("NNLS", "NNLSMC_thorough.cfg" if thorough else "NNLSMC_quick.cfg",
                                                                coverage=False)))
    th.start()
    rx, cfgs = chk.export_configs("NNLS", "NNLSMC_export_thorough.cfg" if thorough else "NNLSMC_export.cfg", keep=lambda c: True, workers=4)
    cases, nprob, ndomain, n_exact, n_exact_mode = build_cases(chk, cfgs, thorough)
    chk.add_cases(cases)
    # expensive runs (hals exact=True: 50 000 sweeps) first, so that the pool is balanced
    order = sorted(range(len(cases)), key=lambda i: (cases[i]["mode"] != "exact", cases[i]["kind"] != "kkt", i))
    evs = execute_cases(execute, [cases[i] for i in order], repo=chk.repo, chunksize=4)
    events = [None] * len(cases)
    for i, e in zip(order, evs):
        events[i] = e
    chk.rule = ("%d problems (G, 1-3 right-hand sides, l1/ridge penalty) drawn with seed %d from the %d single-rhs problems of NNLS.tla's "
                "state space (all of them are model-checked), each through hals (cold/ones/solution; %d runs with exact=True, others "
                "n_iter_max=%d, tol=1e-16), fista (cold + warm starts tol=1e-16; tol=0), active_set (cold + 6 warm starts), admm(n_const=None), "
                "plus a batch of penalty-free signed-Gram problems for active_set/fista warm starts: %d exact events; "
                "+ %d measured-tier events (4-8 unknowns, KKT residuals); distinct = distinct (problem, solver, start)"
                % (nprob, chk.seed, ndomain, n_exact_mode, HALS_CAP, n_exact, len(cases) - n_exact))
    for c in cases:
        chk.distinct.add(str({k: v for k, v in c.items() if k not in ("id", "flags")}))
    for e in (events[0], events[n_exact // 2], events[-1]):
        chk.sample(e)
    by_id = {e.get("id"): e for e in events}
    for rid, clause, _ in chk.validate("NNLSTrace", events):
        chk.violation(rid, clause, event=by_id.get(rid))
    th.join()
    if "r" not in box:
        chk.machinery.append("design run of NNLS.tla did not complete")
    else:
        chk.notes["design_run"] = box["r"].summary()
        if box["r"].distinct != rx.distinct:
            chk.machinery.append("theorem run and export run of NNLS.tla enumerated different domains (%d vs %d states)"
                                 % (box["r"].distinct, rx.distinct))
    chk.exhaustive = False      # problems are sampled from the model-checked domain
    chk.assumptions += [
        "NumPy backend only",
        "exact tier: integer SPD Gram matrices with 1-3 unknowns (cond <= 34, plus the [[19,9],[9,19]] reproducer), integer right-hand sides",
        "solutions compared at 1e-5 (SolTol) with the exact rational minimiser; measured tier judged by KKT residuals <= 5e-5 (cond <= 60)",
        "warm starts: ones, two other all-positive scales, two random partial-support draws, the solution of a different problem (active set: all; fista: a subset; hals: ones and the solution)",
        "hals_nnls is run with n_iter_max=2000/6000, tol=1e-16 except for a subset with exact=True (its stopping rule never fires: every run goes to the cap)",
        "the 'warm from the solution' start is built by the harness with numpy (input construction only)",
    ]


def replay(chk, rec, opts):
    case = rec["case"]
    ev = execute(case)
    chk.sample(ev)
    for rid, clause, _ in chk.validate("NNLSTrace", [ev]):
        chk.violation(rid, clause, case=case, event=ev)
