"""XPLUG rig: drives the real tensorly.plugins (use_opt_einsum / use_default_einsum) together with backend selection,
with real threads.   python -m harness.drivers.xplug_rig <repo> <jobfile.json> <out.ndjson>

The main thread imported tensorly: it is the model's "t0"; "t1"/"t2" are worker threads created afresh for every trace.
opt_einsum is not installed here: a stand-in module with `contract_expression` is placed in sys.modules (the plugin only
uses that one function); 'jax' / 'cupy' are NumPy-derived stand-in backends, as in the C17 rig.  Every backend gets its own
tagged original `einsum`, so that what a backend's `einsum` attribute IS, and which einsum a call actually RAN, are observable.
"""
import json
import queue
import sys
import threading
import types

NAMES = ["numpy", "jax", "cupy"]


class Worker(threading.Thread):
    def __init__(self):
        super().__init__(daemon=True)
        self.q = queue.Queue()
        self.r = queue.Queue()
        self.start()

    def run(self):
        while True:
            f = self.q.get()
            if f is None:
                return
            try:
                self.r.put(("ok", f()))
            except BaseException as ex:     # noqa
                self.r.put(("raised", type(ex).__name__))

    def call(self, f):
        self.q.put(f)
        return self.r.get(timeout=60)

    def stop(self):
        self.q.put(None)


def main():
    repo, jobfile, outpath = sys.argv[1:4]
    sys.path.insert(0, repo)
    import warnings
    warnings.filterwarnings("ignore")
    import numpy as np
    ran = threading.local()
    oe = types.ModuleType("opt_einsum")

    def contract_expression(equation, *shapes, optimize=None):
        def expression(*args):
            ran.tag = "cached"
            return np.einsum(equation, *args)
        return expression
    oe.contract_expression = contract_expression
    sys.modules["opt_einsum"] = oe

    import tensorly as tl
    from tensorly import plugins
    from tensorly.backend.numpy_backend import NumpyBackend

    for n in ("jax", "cupy"):
        type("StandIn_" + n, (NumpyBackend,), {}, backend_name=n)
    inst = {}
    for n in NAMES:
        tl.set_backend(n)
        inst[n] = tl.backend.current_backend() if hasattr(tl.backend, "current_backend") else tl.current_backend()
    tl.set_backend("numpy")
    orig = {}
    for n in NAMES:
        def mk(n=n):
            def einsum(equation, *args):
                ran.tag = n
                return np.einsum(equation, *args)
            einsum.__name__ = "einsum_" + n
            return einsum
        orig[n] = mk()

    def tag(f):
        if f is None:
            return "none"
        for n, g in orig.items():
            if f is g:
                return n
        return "cached" if getattr(f, "__name__", "") == "cached_einsum" else "other"

    def reset():
        tl.set_backend("numpy")
        for n in NAMES:
            inst[n].register_method("einsum", orig[n])
        plugins.PREVIOUS_EINSUM = None
        plugins.OPT_EINSUM_PATH_CACHE.clear()
        tl.backend.use_dynamic_dispatch()

    x = np.arange(3.0)

    def probe():
        ran.tag = "nothing"
        tl.einsum("i->i", x)                  # the import-time wrapper re-exported at top level
        top = ran.tag
        ran.tag = "nothing"
        tl.backend.einsum("i->i", x)          # the manager's own attribute (frozen by use_static_dispatch)
        return [tl.get_backend(), top, ran.tag]

    with open(jobfile) as fh:
        job = json.load(fh)
    out = open(outpath, "w")
    nthreads = job.get("threads", 3)
    names = ["t0", "t1", "t2"][:nthreads]
    for ti, ops in enumerate(job["traces"]):
        tid = "%s%d" % (job.get("prefix", "p"), ti)
        reset()
        workers = {n: Worker() for n in names if n != "t0"}

        def on(t, f):
            if t == "t0":
                try:
                    return ("ok", f())
                except Exception as ex:
                    return ("raised", type(ex).__name__)
            return workers[t].call(f)

        def observe():
            o = {"ein": {n: tag(getattr(inst[n], "einsum")) for n in NAMES}, "prev": tag(plugins.PREVIOUS_EINSUM), "disp": {}, "cur": {}, "attr": {}}
            for u in names:
                st, r = on(u, probe)
                if st == "ok":
                    o["cur"][u], o["disp"][u], o["attr"][u] = r
                else:
                    o["cur"][u], o["disp"][u], o["attr"][u] = "raised", r, r
            return o
        out.write(json.dumps({"id": tid + "/0", "tr": tid, "ev": "Reset", "t": "t0", "name": "none", "loc": False, "out": "ok", "exc": "",
                              "obs": observe()}) + "\n")
        for k, op in enumerate(ops):
            ev, t = op["ev"], op["t"]
            if ev == "Select":
                f = lambda: tl.set_backend(op["name"], local_threadsafe=op["loc"])
            elif ev == "Opt":
                f = lambda: plugins.use_opt_einsum()
            elif ev == "Default":
                f = lambda: plugins.use_default_einsum()
            elif ev == "Static":
                f = lambda: tl.backend.use_static_dispatch()
            elif ev == "Dynamic":
                f = lambda: tl.backend.use_dynamic_dispatch()
            else:
                f = lambda: None
            st, r = on(t, f)
            out.write(json.dumps({"id": "%s/%d" % (tid, k + 1), "tr": tid, "ev": ev, "t": t, "name": op.get("name", "none"),
                                  "loc": bool(op.get("loc", False)), "out": st, "exc": r if st != "ok" else "", "obs": observe()}) + "\n")
        for w in workers.values():
            w.stop()
    reset()
    out.close()


if __name__ == "__main__":
    main()
