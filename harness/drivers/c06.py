"""C06 -- reported reconstruction errors are finite and equal the true error (Driver.tla / DriverTrace.tla)."""
from ..lib_drvcheck import run_driver_check, replay_driver_check

PROP = "C06"


def run(chk, opts):
    run_driver_check(chk, PROP, opts)


def replay(chk, rec, opts):
    replay_driver_check(chk, PROP, rec, opts)
