"""C12 -- proximal operators return the exact minimiser of their prox problem.

Domain = the configurations of Prox.tla, enumerated by TLC (state dump of the design run, in which the
feasibility / optimality / idempotence / homogeneity / firm non-expansiveness theorems are checked on
the specification).  Every configuration goes through the real operator ("direct") and through the
keyword dispatch `proximal_operator(...)` ("dispatch"); column-wise operators additionally get 2-3
column matrices built from the same vectors, and inputs scaled by 1e-3 / 1e3 (the spec's ScaleLaw says
how the answer must move).  ProxTrace.tla decides every event.
"""
import random
import threading

import numpy as np

from ..common import execute_cases, qs
from ..lib_callenv import lay, callenv, bits, invoke, SIG, tweak_zeros

S = 10**6
S4 = 10**4

DIRECT = {
    "l1": ("soft_thresholding", "l1_reg"),
    "l2": ("l2_prox", "l2_reg"),
    "l2sq": ("l2_square_prox", "l2_square_reg"),
    "smooth": ("smoothness_prox", "smoothness"),
    "simplex": ("simplex_prox", "simplex"),
    "l1ball": ("soft_sparsity_prox", "soft_sparsity"),
    "mono": ("monotonicity_prox", "monotonicity"),
    "unimodal": ("unimodality_prox", "unimodality"),
    "hard": ("hard_thresholding", "hard_sparsity"),
    "normsparse": ("normalized_sparsity_prox", "normalized_sparsity"),
    "nonneg": (None, "non_negative"),
    "normalize": (None, "normalize"),
}
LAW = {"l1": "hom", "l1arr": "hom", "l2": "hom", "simplex": "hom", "l1ball": "hom",
       "nonneg": "lin", "l2sq": "lin", "smooth": "lin", "mono": "lin", "unimodal": "lin", "hard": "lin",
       "normsparse": "inv", "normalize": "inv"}      # cross-checked against the spec's ScaleLaw in run()


def _param(case):
    op = case["op"]
    if op in ("hard", "normsparse"):
        return int(case["k"])
    if op in ("nonneg", "normalize", "unimodal", "mono"):
        return True
    t = case["p"] / case["q"]
    if LAW[op] == "hom":
        t = t * 10.0 ** case["sc"]
    return t


def _callables(case):
    """name -> function(array) for the runs of this case.

    Call dimensions (the result must not depend on them): `form` = every argument positional / by keyword (frozen
    signature table), `entry` = the home module or the re-export in tensorly.solvers.admm, `spell` = the scalar / {0: p} /
    [p] spellings of a one-mode constraint in the keyword dispatch, `alias` = threshold array and tensor are one object,
    `prev` = the caller caught an exception of an earlier, invalid call on the same array."""
    import importlib
    P = importlib.import_module("tensorly.solvers.admm" if case.get("entry") == "alias" else "tensorly.tenalg.proximal")
    op, form = case["op"], case.get("form", "pos")

    def guarded(call):
        if case.get("prev") != "failed":
            return call

        def run(a):
            try:        # two constraints for the same mode are refused half-way through the keyword processing
                P.proximal_operator(a, non_negative=True, l1_reg=0.5)
            except ValueError:
                pass
            return call(a)
        return run

    if op == "l1arr":
        # documented array form of the threshold: one threshold per entry, same shape as the input
        thr = np.array(case["t"], dtype=np.float64).T / case["q"] * 10.0 ** case["sc"]       # n x nc
        if case["ndim"] == 1:
            thr = thr[:, 0]
        if case.get("alias"):
            return {"direct": guarded(lambda a: invoke(P.soft_thresholding, "soft_thresholding", {"tensor": a, "threshold": a}, form))}
        return {"direct": guarded(lambda a: invoke(P.soft_thresholding, "soft_thresholding",
                                                   {"tensor": a, "threshold": lay(thr, case.get("layout", "C"))}, form))}
    par = _param(case)
    fn, kw = DIRECT[op]
    runs = {}
    if fn is not None:
        f = getattr(P, fn)
        names = [k for k, _ in SIG[fn]]
        if op == "mono":
            runs["direct"] = guarded(lambda a: invoke(f, fn, {names[0]: a, "decreasing": bool(case["dec"])}, form))
        elif op == "unimodal":
            runs["direct"] = guarded(lambda a: invoke(f, fn, {names[0]: a}, form))
        else:
            runs["direct"] = guarded(lambda a: invoke(f, fn, {names[0]: a, names[1]: par}, form))
    if not (op == "mono" and case["dec"]):
        spelled = {"scalar": par, "dict": {0: par}, "list": [par]}[case.get("spell", "scalar")]
        runs["dispatch"] = guarded(lambda a: invoke(P.proximal_operator, "proximal_operator", {"tensor": a, kw: spelled}, form))
    return runs


def _project(out, n, nc, unscale):
    """columns of the returned array, quantised (column-major view of an n x nc result)."""
    a = np.asarray(out, dtype=np.float64)
    size = int(a.size)
    if size != n * nc:
        return size, [], []
    a = a.reshape(n, nc) / unscale
    cols = [[qs(x, S) for x in a[:, j]] for j in range(nc)]
    cols4 = [[qs(x, S4) for x in a[:, j]] for j in range(nc)]
    return size, cols, cols4


def execute_vec(case):
    op, sc = case["op"], case["sc"]
    cols = case["cols"]
    nc, n = len(cols), len(cols[0])
    scale = 10.0 ** sc
    layout, err, mshape = case.get("layout", "C"), case.get("err", "default"), case.get("mshape", [])
    base = np.array(cols, dtype=np.float64).T * scale          # n x nc
    if mshape:
        base = base[:, 0].reshape(mshape)                      # whole-tensor operator on a matrix: row-major reshape of the vector
    elif case["ndim"] == 1:
        base = base[:, 0]
    base = tweak_zeros(base, case.get("vals", "plain"))
    unscale = 1.0 if LAW[op] == "inv" else scale

    def proj(out):
        if mshape:
            o = np.asarray(out, dtype=np.float64)
            if o.shape != tuple(mshape):
                return int(o.size) if o.size != n * nc else -1, [], []
            out = o.reshape(-1)                                 # row-major flattening
        return _project(out, n, nc, unscale)

    runs = {}
    for name, f in _callables(case).items():
        try:
            arg = lay(base, layout)
            before = bits(arg)
            with callenv(err):
                out = f(arg)
            mutated = bits(arg) != before
            size, oc, oc4 = proj(out)
            again, again_raised = [], False
            if size == n * nc and op in ("nonneg", "simplex", "l1ball", "mono", "unimodal", "hard", "normsparse", "normalize"):
                o = np.asarray(out, dtype=np.float64)
                if np.all(np.isfinite(o)):
                    o2 = o.reshape(base.shape) if o.shape != base.shape else o
                    try:
                        with callenv(err):
                            _, again, _ = proj(f(lay(o2, layout)))
                    except Exception:            # the operator rejects its own output
                        again, again_raised = [], True
            runs[name] = {"raised": False, "exc": "", "size": size, "out": oc, "out4": oc4, "again": again,
                          "again_raised": again_raised, "mutated": bool(mutated)}
        except Exception as ex:
            runs[name] = {"raised": True, "exc": type(ex).__name__, "size": 0, "out": [], "out4": [], "again": [],
                          "again_raised": False, "mutated": False}
    return {"id": case["id"], "kind": "vec", "op": op, "p": case["p"], "q": case["q"], "k": case["k"], "dec": case["dec"],
            "sc": sc, "cols": cols, "t": case.get("t", []), "ndim": case["ndim"], "layout": layout, "err": err, "mshape": mshape,
            "form": case.get("form", "pos"), "entry": case.get("entry", "home"), "spell": case.get("spell", "scalar"),
            "vals": case.get("vals", "plain"), "prev": case.get("prev", "none"), "alias": bool(case.get("alias", False)),
            "runs": runs}


def mat_of(case):
    r = min(case["m"], case["n"])
    M = np.zeros((case["m"], case["n"]))
    for l in range(r):
        M += case["c"][l] * np.outer(case["uf"][l], case["vf"][l])
    return M


def _qmat(a):
    a = np.asarray(a, dtype=np.float64)
    return [[qs(x, S) for x in row] for row in a]


def execute_mat(case):
    from tensorly.tenalg import proximal as P
    M = mat_of(case)
    m, n = M.shape
    run = {"raised": False, "exc": "", "size": 0, "out": [], "again": [], "again_raised": False, "orth": 0, "ip": 0, "mutated": False}
    layout, err = case.get("layout", "C"), case.get("err", "default")
    try:
        arg = lay(tweak_zeros(M, case.get("vals", "plain")), layout)
        before = bits(arg)
        form = case.get("form", "pos")
        with callenv(err):
            if case["op"] == "svt":
                out = invoke(P.svd_thresholding, "svd_thresholding", {"matrix": arg, "threshold": case["p"] / case["q"]}, form)
            else:
                out = invoke(P.procrustes, "procrustes", {"matrix": arg}, form)
        run["mutated"] = bool(bits(arg) != before)
        out = np.asarray(out, dtype=np.float64)
        run["size"] = int(out.size)
        if out.shape == (m, n):
            run["out"] = _qmat(out)
            if case["op"] == "procrustes":
                g = out.T @ out if m >= n else out @ out.T
                run["orth"] = qs(np.max(np.abs(g - np.eye(g.shape[0]))), S)
                run["ip"] = qs(float(np.sum(out * M)), S)          # <Q, M>, to be compared with the nuclear norm
                if np.all(np.isfinite(out)):
                    try:
                        run["again"] = _qmat(P.procrustes(out.copy()))
                    except Exception:
                        run["again_raised"] = True
        else:
            run["size"] = -1
    except Exception as ex:
        run.update(raised=True, exc=type(ex).__name__)
    return {"id": case["id"], "kind": "mat", "op": case["op"], "p": case["p"], "q": case["q"], "m": m, "n": n,
            "uf": case["uf"], "vf": case["vf"], "c": case["c"], "M": [[int(x) for x in row] for row in M], "layout": layout, "err": err,
            "form": case.get("form", "pos"), "vals": case.get("vals", "plain"), "runs": {"direct": run}}


def execute(case):
    return execute_mat(case) if case["kind"] == "mat" else execute_vec(case)


def _flags(op, cols, p, q_):
    flat = [x for c in cols for x in c]
    fl = {"allneg": all(x < 0 for x in flat), "hasneg": any(x < 0 for x in flat)}
    if op == "l1ball":
        fl["inside"] = any(sum(abs(x) for x in c) * q_ < p for c in cols)
    return fl


def build_cases(chk, cfgs, thorough):
    rng = random.Random(chk.seed)
    fam_meta, vecs, mats, arrs = {}, [], [], []
    for c in cfgs:
        if c["op"] == "start":
            f = c["fam"]
            fam_meta[(f["op"], f["p"], f["q"], f["k"], f["dec"])] = (c["columnwise"], c["law"])
        elif c["op"] in ("startm", "starta", "none"):
            continue
        elif c["op"] == "l1arr":
            arrs.append(c)
        elif c["op"] in ("svt", "procrustes"):
            mats.append(c)
        else:
            vecs.append(c)
    for (op, *_), (_, law) in fam_meta.items():
        if LAW[op] != law:
            raise RuntimeError("harness LAW table disagrees with the spec's ScaleLaw for %s" % op)
    vecs.sort(key=lambda c: (c["op"], c["p"], c["q"], c["k"], c["dec"], len(c["v"]), list(c["v"])))
    mats.sort(key=lambda c: (c["op"], c["p"], c["q"], c["m"], c["n"], str(c["uf"]), str(c["vf"]), list(c["c"])))
    cases = []

    def add(kind, op, body):
        i = len(cases)
        body.update(id="C12/%s/%06d" % (op, i), kind=kind, op=op)
        # call dimensions, rotated (not crossed): every event alternates positional / keyword arguments; the events that
        # carry a non-default environment (see below) also rotate the entry point, the constraint spelling, the way zeros are
        # written and an earlier failed call
        body.setdefault("form", ("pos", "kw")[i % 2])
        if body.get("env"):
            body.setdefault("entry", ("home", "alias")[(i // 2) % 2])
            body.setdefault("spell", ("scalar", "dict", "list")[i % 3])
            body.setdefault("vals", ("plain", "negzero", "subnormal")[(i // 3) % 3])
            body.setdefault("prev", ("none", "failed")[(i // 5) % 2])
        cases.append(body)

    byfam = {}
    for c in vecs:
        key = (c["op"], c["p"], c["q"], c["k"], c["dec"])
        byfam.setdefault((key, len(c["v"])), []).append(list(c["v"]))
        add("vec", c["op"], dict(p=c["p"], q=c["q"], k=c["k"], dec=c["dec"], sc=0, cols=[list(c["v"])], ndim=1,
                                 flags=_flags(c["op"], [list(c["v"])], c["p"], c["q"])))
    n_base = len(cases)
    # 2-3 column matrices for the operators the spec marks column-wise; scaled inputs for all
    for (key, n), vs in sorted(byfam.items()):
        op, p, q_, k, dec = key
        columnwise, _ = fam_meta[key]
        if columnwise:
            nm = len(vs) if thorough else min(len(vs), 6 + 6 * n)
            for t in range(nm):
                nc = 2 + (t % 2)
                cols = [vs[t % len(vs)] if (thorough and j == 0) else rng.choice(vs) for j in range(nc)]
                if t == 0:
                    cols = [[-1 - ((i + j) % 2) for i in range(n)] for j in range(nc)]      # every entry negative
                add("vec", op, dict(p=p, q=q_, k=k, dec=dec, sc=0, cols=cols, ndim=2, flags=_flags(op, cols, p, q_)))
        for sc in (-9, -3, 3, 9):       # decimal exponent of the units of the input (and of "length" parameters)
            pick = vs if (thorough and abs(sc) == 3) else rng.sample(vs, max(1, min(len(vs), 2 + len(vs) // (10 if abs(sc) == 3 else 25))))
            for v in pick:
                add("vec", op, dict(p=p, q=q_, k=k, dec=dec, sc=sc, cols=[v], ndim=1, flags=_flags(op, [v], p, q_)))
    # per-entry threshold arrays (soft_thresholding's documented ndarray form): every (v, t) as a vector,
    # 2-3 column matrices with a threshold matrix, scaled inputs
    arrs.sort(key=lambda c: (len(c["v"]), list(c["v"]), list(c["t"])))
    for c in arrs:
        add("vec", "l1arr", dict(p=0, q=c["q"], k=0, dec=False, sc=0, cols=[list(c["v"])], t=[list(c["t"])], ndim=1,
                                 flags=_flags("l1arr", [list(c["v"])], 0, c["q"])))
    by_n = {}
    for c in arrs:
        by_n.setdefault(len(c["v"]), []).append(c)
    for n, cs in sorted(by_n.items()):
        for t in range(len(cs) // 4 if thorough else 60 * n):
            pick = [rng.choice(cs) for _ in range(2 + t % 2)]
            add("vec", "l1arr", dict(p=0, q=pick[0]["q"], k=0, dec=False, sc=0, cols=[list(c["v"]) for c in pick],
                                     t=[list(c["t"]) for c in pick], ndim=2, flags={"allneg": False, "hasneg": True}))
        for sc in (-9, -3, 3, 9):
            for c in (cs if (thorough and abs(sc) == 3) else rng.sample(cs, min(len(cs), (40 if abs(sc) == 3 else 15) * n))):
                add("vec", "l1arr", dict(p=0, q=c["q"], k=0, dec=False, sc=sc, cols=[list(c["v"])], t=[list(c["t"])], ndim=1,
                                         flags={"allneg": False, "hasneg": True}))
    # call environments: the same values in other memory layouts, and under other caller-side error / warning settings
    n_before_env = len(cases)
    _add = add

    def add(kind, op, body):          # noqa: F811  (events of this section carry env=True)
        body["env"] = True
        _add(kind, op, body)
    for (key, n), vs in sorted(byfam.items()):
        op, p, q_, k, dec = key
        columnwise, _ = fam_meta[key]
        special = [v for v in vs if not any(v)] + [v for v in vs if all(x < 0 for x in v)][:1]
        picks = special + rng.sample(vs, min(len(vs), 6 if thorough else 3))
        for t, v in enumerate(picks):
            for err in ("ignore", "raise", "warnerr"):
                add("vec", op, dict(p=p, q=q_, k=k, dec=dec, sc=0, cols=[v], ndim=1, layout="C", err=err, flags=_flags(op, [v], p, q_)))
            for layout in ("strided", "readonly"):
                add("vec", op, dict(p=p, q=q_, k=k, dec=dec, sc=0, cols=[v], ndim=1, layout=layout, err=("default", "ignore")[t % 2],
                                    flags=_flags(op, [v], p, q_)))
        if columnwise and n >= 2:
            for layout in ("F", "strided", "readonly"):
                for t in range(4 if thorough else 2):
                    cols = [rng.choice(vs) for _ in range(2 + t % 2)]
                    add("vec", op, dict(p=p, q=q_, k=k, dec=dec, sc=0, cols=cols, ndim=2, layout=layout, err=("default", "raise")[t % 2],
                                        flags=_flags(op, cols, p, q_)))
        if op in ("l2", "hard", "normsparse", "normalize") and n == 4:
            # whole-tensor operators on a 2 x 2 matrix (row-major reshape of the 4-vector), every layout
            for v in special + rng.sample(vs, min(len(vs), 60 if thorough else 14)):
                for t, layout in enumerate(("C", "F", "strided", "readonly")):
                    add("vec", op, dict(p=p, q=q_, k=k, dec=dec, sc=0, cols=[v], ndim=2, mshape=[2, 2], layout=layout,
                                        err=("default", "ignore", "default", "warnerr")[t], flags=_flags(op, [v], p, q_)))
    for n, cs in sorted(by_n.items()):
        if n >= 2:
            for layout in ("F", "strided", "readonly"):
                for t in range(6):
                    pick = [rng.choice(cs) for _ in range(2 + t % 2)]
                    add("vec", "l1arr", dict(p=0, q=pick[0]["q"], k=0, dec=False, sc=0, cols=[list(c["v"]) for c in pick],
                                             t=[list(c["t"]) for c in pick], ndim=2, layout=layout, err=("default", "ignore", "raise")[t % 3],
                                             flags={"allneg": False, "hasneg": True}))
    for t, c in enumerate(mats):
        if t % (3 if thorough else 9) == 0:
            add("mat", c["op"], dict(p=c["p"], q=c["q"], m=c["m"], n=c["n"], uf=[list(u) for u in c["uf"]], vf=[list(u) for u in c["vf"]],
                                     c=list(c["c"]), layout=("F", "strided", "readonly")[(t // 9) % 3], err=("default", "ignore", "raise", "warnerr")[(t // 9) % 4]))
    # aliasing: the threshold array IS the tensor (t_i = v_i >= 0)
    for c in arrs:
        if all(x in (0, 1) for x in c["v"]) and list(c["t"]) == [c["q"] * x for x in c["v"]]:
            add("vec", "l1arr", dict(p=0, q=c["q"], k=0, dec=False, sc=0, cols=[list(c["v"])], t=[list(c["t"])], ndim=1, alias=True,
                                     layout="C", err="default", flags={"allneg": False, "hasneg": False}))
    n_env = len(cases) - n_before_env
    add = _add
    for c in mats:
        add("mat", c["op"], dict(p=c["p"], q=c["q"], m=c["m"], n=c["n"], uf=[list(u) for u in c["uf"]],
                                 vf=[list(u) for u in c["vf"]], c=list(c["c"])))
    return cases, n_base, len(vecs) + len(arrs), len(mats)


def run(chk, opts):
    thorough = chk.tier == "thorough"
    # (1) theorems of the specification (invariant SpecOK in every state of the domain) -- runs concurrently with
    # (2) the export of the very same state space (same Init/Next/constants, no invariant, with a state dump)
    box = {}
    th = threading.Thread(target=lambda: box.update(r=chk.design("Prox", "ProxMC_thorough.cfg" if thorough else "ProxMC_quick.cfg",
                                                                coverage=False)))
    th.start()
    rx, cfgs = chk.export_configs("Prox", "ProxMC_export.cfg", keep=lambda c: True, workers=4)
    cases, n_base, nvec, nmat = build_cases(chk, cfgs, thorough)
    chk.add_cases(cases)
    events = execute_cases(execute, cases, repo=chk.repo, chunksize=64)
    chk.rule = ("every configuration of Prox.tla exported from TLC's design run: %d (operator, parameter, vector in {-2..2}^n, n<=4) "
                "points as column vectors through the operator and the keyword dispatch, %d closed-form-SVD matrices through "
                "svd_thresholding/procrustes; plus %d derived events (2-3 column matrices for column-wise operators, inputs scaled "
                "by 1e-3/1e3 and 1e-9/1e9; seeded sample in quick, all in thorough); distinct = distinct (op, parameters, input, scale)"
                % (nvec, nmat, len(cases) - nvec - nmat))
    for c in cases:
        chk.distinct.add(str({k: v for k, v in c.items() if k not in ("id", "flags")}))
    for e in (events[0], events[n_base // 2], events[-1]):
        chk.sample(e)
    by_id = {e.get("id"): e for e in events}
    for rid, clause, _ in chk.validate("ProxTrace", events):
        chk.violation(rid, clause, event=by_id.get(rid))
    th.join()
    if "r" not in box:
        chk.machinery.append("design run of Prox.tla did not complete")
    else:
        chk.notes["design_run"] = box["r"].summary()
        if box["r"].distinct != rx.distinct:
            chk.machinery.append("theorem run and export run of Prox.tla enumerated different domains (%d vs %d states)"
                                 % (box["r"].distinct, rx.distinct))
    chk.exhaustive = (not chk.machinery) and all("harness_error" not in e for e in events) and len(events) == len(cases)
    chk.assumptions += [
        "NumPy backend only",
        "exact domain: vectors in {-2..2}^n (n<=4) with rational parameters; scaled variants rely on the spec's homogeneity theorem (checked for c=2,3)",
        "l2 block / normalised sparsity on inputs with irrational norm are judged at 1e-4 (IrrTol) instead of 1e-6",
        "whole-tensor operators (l2 block, hard/normalised sparsity, max-normalisation) are exercised on single columns and on 2 x 2 matrices under the flattened-tensor semantics of their docstrings (the guide's 'column-wise' wording for hard sparsity is not what the function documents)",
        "call forms: arguments positional / by published keyword from a frozen signature table (alternating on every event); re-export tensorly.solvers.admm.<prox>; scalar / {0: p} / [p] constraint spellings; zeros written as -0.0 or +/-5e-324; an earlier refused call on the same array; threshold array aliased with the tensor; 1 x n and n x 1 matrices for svd_thresholding / procrustes",
        "call environments: C / Fortran / strided / read-only inputs, np.errstate(all=ignore|raise) and warnings-as-errors of the caller; the input must be bit-identical after the call",
        "zero input of normalised sparsity / max-normalisation: any point of the constraint set is accepted",
        "smoothness penalty read as (r/2)*sum of squared finite differences of the zero-extended column (matches the repo's own reference values)",
        "the keyword dispatch of 'monotonicity' may return either monotone projection (docstrings say decreasing, code does increasing)",
    ]


def replay(chk, rec, opts):
    case = rec["case"]
    ev = execute(case)
    chk.sample(ev)
    for rid, clause, _ in chk.validate("ProxTrace", [ev]):
        chk.violation(rid, clause, case=case, event=ev)
