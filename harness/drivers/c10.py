"""C10 -- see DESIGN.md section 5, C10 (Driver.tla / DriverTrace.tla)."""
from ..lib_drvcheck import run_driver_check, replay_driver_check

PROP = "C10"


def run(chk, opts):
    run_driver_check(chk, PROP, opts)


def replay(chk, rec, opts):
    replay_driver_check(chk, PROP, rec, opts)
