"""C03 -- factorised tensors reconstruct to their defining contraction; views agree.

Domain = the configurations Factorized.tla enumerates as TLC states (CP / Tucker / TT / TR / TT-matrix /
PARAFAC2 shapes and rank vectors, weights present/absent, plus the single-field perturbations that make a
factor set structurally invalid); TLC checks the theorems of the specification in each of them and the
state dump hands the very same configurations (with the array shapes to fill) to this driver.
For each configuration the arrays are filled with integers in -2..2 (VERIF_SEED), pushed through the real
tensorly functions as tuple and as wrapper object under both tenalg backends, and FactorizedTrace.tla
decides every view of every run by exact equality with the spec's contraction.
"""
import time

import numpy as np

from ..common import execute_cases
from .. import lib_factorized as lf


def execute(case):
    c = case["cfg"]
    op = c["op"]
    if "in" in case:                                   # replay: the recorded integer inputs
        inp = lf.inputs_from_json(c, case["in"])
    else:
        inp = lf.draw_inputs(c, np.random.default_rng([case["seed"], case["k"], case["draw"]]))
    runs = {}
    try:
        for be in lf.BACKENDS:
            lf.set_tenalg(be)
            if c.get("late"):                                   # wrapper whose parts were replaced after construction
                if c["bad"] != "none":
                    runs["%s_late" % be] = lf.run_late_invalid(op, inp)
                else:
                    runs["%s_late" % be] = lf.run_views(op, inp, "object", objfactory=lambda: lf.late_object(op, inp))
                    if be == "core":
                        runs["%s_late_seq" % be] = lf.run_views(op, inp, "object", shared=True, objfactory=lambda: lf.late_object(op, inp))
                continue
            if (c["skip"] != -1 or c["tr"] or c["modes"]) and c["bad"] != "none":     # invalid pair under view options
                runs["%s_convert" % be] = lf.run_tucker_options_invalid(inp, c["skip"], c["tr"], c["modes"])
                continue
            if c["skip"] != -1 or c["tr"] or c["modes"]:       # Tucker view options
                for how in ("tuple", "object"):
                    if how == "object" and (c["tr"] or c["modes"]):
                        continue                                 # (core, factors) is not a TuckerTensor under these options
                    runs["%s_%s" % (be, how)] = lf.run_tucker_options(inp, how, c["skip"], c["tr"], c["modes"], callform=c.get("callform", "plain"))
                continue
            # container form of the parts: lists or tuples all the way down, alternating with the backend and the event
            form = ("list", "tuple")[(case["k"] + (be == "einsum")) % 2]
            for how in ("tuple", "object"):
                runs["%s_%s" % (be, how)] = lf.run_views(op, inp, how, form=form, callform=c.get("callform", "plain"))
                # the same conversions in sequence on ONE tuple / ONE object (every PARAFAC2 event, every other event otherwise)
                if c["bad"] == "none" and be == "core" and (op == "p2" or case["k"] % 2 == 0):
                    runs["%s_%s_seq" % (be, how)] = lf.run_views(op, inp, how, shared=True, callform=c.get("callform", "plain"))
            if c["bad"] != "none":          # invalid family: the conversion functions on the raw tuple, too
                runs["%s_convert" % be] = lf.run_convert(op, inp)
    finally:
        lf.set_tenalg("core")
    return {"id": case["id"], "cfg": c, "in": lf.inputs_json(c, inp), "runs": runs}


def run(chk, opts):
    thorough = chk.tier == "thorough"
    t0 = time.time()
    r, cfgs = chk.export_configs("Factorized", "FactorizedMC_thorough.cfg" if thorough else "FactorizedMC_quick.cfg",
                                 keep=lambda c: c.get("op") != "root")
    chk.notes["design_run"] = r.summary()
    t1 = time.time()
    cfgs.sort(key=lambda c: (c["op"], len(c["shape"]), c["shape"], c["rank"], str(c)))
    draws = 2 if thorough else 1
    cases = []
    for k, c in enumerate(cfgs):
        # thorough: a second seeded fill for the valid configurations of order <= 3 (order 4 dominates the count)
        for d in range(draws if c["bad"] == "none" and len(c["shape"]) <= 3 else 1):
            cases.append({"id": "C03/%s/%05d/%d" % (c["op"], k, d), "cfg": c, "seed": chk.seed, "k": k, "draw": d})
    events = execute_cases(execute, cases, repo=chk.repo)
    t2 = time.time()
    # replay files carry the concrete integer inputs
    by_id = {e.get("id"): e for e in events}
    for cs in cases:
        e = by_id.get(cs["id"])
        if e is not None and "in" in e:
            cs["in"] = e["in"]
    chk.add_cases(cases)
    nvalid = sum(1 for c in cfgs if c["bad"] == "none")
    chk.rule = ("all %d configurations exported from TLC's design run of Factorized.tla (%d valid: every shape of order 2-4 within the bounds x "
                "every rank (vector) x weights present/absent for CP, Tucker, TT, TR, TT-matrix, PARAFAC2 with uneven slices; %d single-field "
                "perturbations forming the invalid family), each filled with seeded integers in -2..2 and run as tuple and wrapper object under "
                "tenalg core and einsum; distinct = distinct configurations" % (len(cfgs), nvalid, len(cfgs) - nvalid))
    for e in events:
        if "cfg" in e:
            chk.distinct.add(str(e["cfg"]))
    for e in events[len(events) // 3: len(events) // 3 + 2]:
        chk.sample(e)
    silent = {}
    for e in events:
        for rk, rr in e.get("runs", {}).items():
            for fn in rr.get("accepted", []):
                key = "%s/%s%+d: %s" % (e["cfg"]["op"], e["cfg"]["bad"], e["cfg"]["dl"], fn)
                silent[key] = silent.get(key, 0) + 1
    chk.notes["conversion_functions_that_returned_a_value_on_an_invalid_raw_tuple (run x event counts)"] = silent
    for rid, clause, rest in chk.validate("FactorizedTrace", events):
        ev = by_id.get(rid)
        chk.violation(rid, clause, event=ev, extra={"run": rest[0] if rest else "-",
                                                                  "form": ((ev or {}).get("runs", {}).get(rest[0] if rest else "-", {}) or {}).get("form", "-")})
    chk.notes["phase_s"] = {"design+export": round(t1 - t0, 1), "execute": round(t2 - t1, 1), "validate": round(time.time() - t2, 1)}
    chk.exhaustive = len(chk.distinct) == len(cfgs) and not chk.machinery
    chk.assumptions += ["NumPy backend only", "integer entries in -2..2 so that float64 arithmetic is exact; multilinearity in each factor "
                        "extends equality on generic integer fills to all values only heuristically (one seeded fill per configuration; "
                        "two in the thorough tier)",
                        "rejection of the three named invalid classes is demanded of the validator, the wrapper constructor and every "
                        "conversion function called on the raw tuple; perturbations go in both directions (one too large / one too small, "
                        "down to rank 0; Gram deviation of either sign)"]


def replay(chk, rec, opts):
    case = rec["case"]
    ev = execute(case)
    chk.sample(ev)
    for rid, clause, rest in chk.validate("FactorizedTrace", [ev]):
        chk.violation(rid, clause, case=case, event=ev, extra={"run": rest[0] if rest else "-"})
