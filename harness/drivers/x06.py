"""X06 (extension, not one of the listed properties): error ownership for robust_pca, whose returned list
(||X - D - E|| per iteration) obeys the same contract as the algorithms property C06 names; Driver.tla has it in Algs."""
from .. import lib_driver as L
from ..lib_drvcheck import design_runs, validate_traces


def run(chk, opts):
    design_runs(chk, "C14")          # design run of the spec, no witness runs
    cfgs = L.ext_configs(chk.tier, chk.seed)
    chk.add_cases(cfgs)
    validate_traces(chk, "C06", cfgs)
    chk.rule = "%d robust_pca traces (prefix runs 0..21)" % len(cfgs)
    chk.exhaustive = False


def replay(chk, rec, opts):
    chk.add_cases([rec["case"]])
    validate_traces(chk, "C06", [rec["case"]])
