"""C14 -- warm starts begin at the supplied decomposition; fixed modes stay fixed (Driver.tla / DriverTrace.tla)."""
from ..lib_drvcheck import run_driver_check, replay_driver_check

PROP = "C14"


def run(chk, opts):
    run_driver_check(chk, PROP, opts)


def replay(chk, rec, opts):
    replay_driver_check(chk, PROP, rec, opts)
