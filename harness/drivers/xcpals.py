"""XCPALS (extension, not one of the listed properties): the control skeleton of CP-ALS, bound through its own verbose log.

CPALS.tla is implementation-shaped: one action per line `parafac(..., verbose=2)` prints (Start / Mode / line-search
accepted / failed / acceleration reduced / error lines / converged / callback exit), plus the silent steps in between.
No hook is needed: the verbose log of a real run IS the trace.  TLC checks on the model: reported errors never increase
(given exact block solves), one error per completed iteration, the acceleration bookkeeping (acc_fail < max_fail, a reduction
exactly after max_fail consecutive failures), the line search extrapolates from the iterate saved at the start of the same
iteration, every run terminates, exits are justified; and two witness runs show that the code AS FOUND can die on its own
bookkeeping (NoCrash): linesearch=True or a callback, with tol falsy and return_errors=False.
Real runs over the option space (line search, tol, return_errors, callbacks that stop or not, fixed modes, caps 0..40) are
recorded and validated line by line by CPALSTrace.tla, including the two crash configurations (the real exception must
occur exactly where the model's Crash action is enabled).
"""
import contextlib
import io
import re

import numpy as np

from .. import tlc
from ..common import NCPU, execute_cases, qs

SCALE = 10**8
BROKEN = {"CPALSMC_crashline.cfg": "linesearch=True, tol falsy, return_errors=False: rec_errors[-1] on an empty list (IndexError at iteration 6)",
          "CPALSMC_crashcb.cfg": "callback installed, tol falsy, return_errors=False: the callback is handed the unbound rec_error (UnboundLocalError)"}


def qe(x):
    return qs(x, SCALE)


def make_data(c):
    rng = np.random.RandomState(c["seed"])
    shape = tuple(c["shape"])
    if c["data"] == "generic":
        return rng.standard_normal(shape) * (c.get("scale") or 1.0)
    fs = [rng.random_sample((n, 3)) for n in shape]
    out = np.zeros(shape)
    for j in range(3):
        comp = fs[0][:, j]
        for f in fs[1:]:
            comp = np.multiply.outer(comp, f[:, j])
        out += comp
    if c["data"] != "lowrank":
        out = out + rng.standard_normal(shape) * np.std(out) * c.get("noise", 1.0)
    return out * c["scale"] if c.get("scale") else out


LINE = [
    ("Start", re.compile(r"^Starting iteration (\d+)$")),
    ("Mode", re.compile(r"^Mode (\d+) of (\d+)$")),
    ("LsAcc", re.compile(r"^Accepted line search jump of (\S+)\.$")),
    ("LsFail", re.compile(r"^Line search failed for jump of (\S+)\.$")),
    ("Reduce", re.compile(r"^Reducing acceleration\.$")),
    ("Err0", re.compile(r"^reconstruction error=(\S+)$")),
    ("ErrK", re.compile(r"^iteration (\d+), reconstruction error: (\S+), decrease = (\S+), unnormalized = (\S+)$")),
    ("Conv", re.compile(r"^PARAFAC converged after (\d+) iterations$")),
    ("CbExit", re.compile(r"^Received True from callback function\. Exiting\.$")),
]


def execute(c):
    import tensorly as tl
    from tensorly.decomposition import parafac
    tid = c["id"]
    X = make_data(c)
    order = X.ndim
    fixed = list(c.get("fixed") or [])
    rng = np.random.RandomState(c["seed"] + 1)
    init = c["init"]
    if fixed:
        init = (None, [rng.standard_normal((n, c["rank"])) for n in X.shape])
    cb_calls = []
    cb = None
    if c["cb"]:
        def cb(cp, err=None):
            cb_calls.append(err)
            return c["cb_stop_at"] is not None and len(cb_calls) - 1 == c["cb_stop_at"] + 1    # call 0 is the pre-loop one
    kw = dict(n_iter_max=c["cap"], init=init, tol=c["tol"], random_state=c["seed"], linesearch=c["ls"], verbose=2,
              return_errors=c["errors"], cvg_criterion=c.get("cvg", "abs_rec_error"), normalize_factors=c.get("normalize", False))
    if fixed:
        kw["fixed_modes"] = list(fixed)
    if cb is not None:
        kw["callback"] = cb
    buf = io.StringIO()
    out, exc, errs = "ok", "", None
    try:
        with contextlib.redirect_stdout(buf), np.errstate(all="ignore"):
            res = parafac(X, c["rank"], **kw)
        if c["errors"]:
            errs = [float(e) for e in res[1]]
    except Exception as ex:          # noqa
        out, exc = "raised", type(ex).__name__
    # modes the routine updates, as documented: fixed modes are skipped (the last mode cannot be fixed)
    modes = [m for m in range(order) if m not in fixed]
    tol = c["tol"]
    below = []
    if errs is not None and tol:
        for k in range(1, len(errs)):
            dec = errs[k - 1] - errs[k]
            below.append(bool(abs(dec) < tol) if c.get("cvg", "abs_rec_error") == "abs_rec_error" else bool(dec < tol))
    events = [{"id": tid + "/call", "tr": tid, "ev": "Call",
               "cfg": {"cap": c["cap"], "ls": bool(c["ls"]), "tol": bool(tol), "errors": bool(c["errors"]), "cb": bool(c["cb"]),
                       "cbstops": c["cb"] and c["cb_stop_at"] is not None, "modes": modes},
               "errs": [qe(e) for e in (errs or [])], "n_errs": -1 if errs is None else len(errs), "below": below,
               "out": out, "exc": exc}]
    n = 0
    for line in buf.getvalue().split("\n"):
        line = line.strip()
        if not line:
            continue
        n += 1
        ev = {"id": "%s/%d" % (tid, n), "tr": tid, "ev": "Unknown", "text": line[:80]}
        for name, rx in LINE:
            m = rx.match(line)
            if not m:
                continue
            ev["ev"] = name
            if name == "Start":
                ev["k"] = int(m.group(1))
            elif name == "Mode":
                ev["m"], ev["n"] = int(m.group(1)), int(m.group(2))
            elif name in ("LsAcc", "LsFail"):
                j = float(m.group(1))
                ev["jump_pows"] = [qs(j ** p, 10**6) for p in range(2, 14)]
            elif name == "Err0":
                ev["e"] = qe(float(m.group(1)))
            elif name == "ErrK":
                ev["k"], ev["e"], ev["d"] = int(m.group(1)), qe(float(m.group(2))), qe(float(m.group(3)))
            elif name == "Conv":
                ev["k"] = int(m.group(1))
            break
        events.append(ev)
    if errs is None and tol:
        # return_errors=False: the printed values are the only record of rec_errors
        logged = [e["e"] for e in events if e["ev"] in ("Err0", "ErrK")]
        events[0]["errs"] = logged
        raw = [float(l.split("=")[1]) if l.startswith("reconstruction error=") else float(l.split("reconstruction error: ")[1].split(",")[0])
               for l in (x.strip() for x in buf.getvalue().split("\n")) if l.startswith("reconstruction error=") or l.startswith("iteration ")]
        for k in range(1, len(raw)):
            dec = raw[k - 1] - raw[k]
            events[0]["below"].append(bool(abs(dec) < tol) if c.get("cvg", "abs_rec_error") == "abs_rec_error" else bool(dec < tol))
    events.append({"id": tid + "/end", "tr": tid, "ev": "Return" if out == "ok" else "Raise", "exc": exc})
    return events


def configs(tier, seed):
    rng = np.random.RandomState(seed + 909)
    thorough = tier == "thorough"
    cfgs = []

    def add(**kw):
        c = {"id": "cp%04d" % len(cfgs), "seed": int(rng.randint(0, 10**6)), "shape": [4, 5, 3], "rank": 2, "data": "generic", "init": "random",
             "cap": 8, "ls": False, "tol": 0, "errors": True, "cb": False, "cb_stop_at": None}
        c.update(kw)
        cfgs.append(c)
    B = (False, True)
    # every option combination (incl. the two as-found crash configurations), short and long budgets
    for ls in B:
        for tol in (0, 1e-300, 1e-3):
            for errors in B:
                for cbk in ("none", "never", "stops"):
                    for cap in (0, 1, 3, 9, 14):
                        add(ls=ls, tol=tol, errors=errors, cb=cbk != "none", cb_stop_at=int(rng.randint(0, max(1, cap))) if cbk == "stops" else None,
                            cap=cap, data=["generic", "noisy", "lowrank"][len(cfgs) % 3])
    # fixed modes (the documented update list), orders 2..4
    for shape, fixed in (([4, 5, 3], [0]), ([4, 5, 3], [1]), ([4, 5, 3], [0, 1]), ([3, 4, 2, 3], [2, 0]), ([5, 4], [0]), ([3, 4, 2, 3], [1])):
        for ls in B:
            add(shape=shape, fixed=fixed, ls=ls, tol=1e-300, cap=10)
    # long line-search runs on slowly converging data: accepted and failed jumps, reductions of the acceleration
    for j in range(60 if thorough else 16):
        add(shape=[6, 7, 8], rank=2 + j % 2, data="noisy", noise=[1.0, 0.3, 3.0][j % 3], ls=True, tol=[1e-300, 0, 1e-9][j % 3], errors=True, cap=[40, 25, 60][j % 3],
            cb=j % 4 == 0, cvg=["abs_rec_error", "rec_error"][j % 2], normalize=j % 5 == 0, scale=[None, 1e-2, None, 1e-3, 50.0][j % 5])
    # converged fits with the stopping rule off: late jumps fail repeatedly and the acceleration is reduced
    for j in range(12 if thorough else 6):
        add(shape=[5, 4, 3], rank=2, data="lowrank", ls=True, tol=0, errors=True, cap=[80, 120][j % 2], init=["random", "svd"][j % 2], seed=int(rng.randint(0, 10**6)))
    # convergence exits on exactly low-rank data, both criteria
    for j in range(24 if thorough else 8):
        add(shape=[5, 4, 3], rank=[3, 2][j % 2], data="lowrank", ls=j % 2 == 0, tol=[1e-3, 1e-6, 1e-2][j % 3], errors=j % 3 != 0, cap=60,
            cvg=["abs_rec_error", "rec_error"][j % 2], init=["random", "svd"][j % 2])
    # random sweep
    for j in range(200 if thorough else 40):
        cap = int(rng.randint(0, 30))
        cbk = ["none", "never", "stops"][int(rng.randint(0, 3))]
        add(shape=[[4, 5, 3], [3, 3, 4], [5, 4], [3, 4, 2, 3]][int(rng.randint(0, 4))], rank=int(rng.randint(1, 4)), data=["generic", "noisy", "lowrank"][int(rng.randint(0, 3))],
            ls=bool(rng.rand() < 0.6), tol=[0, 1e-300, 1e-4, 1e-2][int(rng.randint(0, 4))], errors=bool(rng.rand() < 0.6), cap=cap,
            cb=cbk != "none", cb_stop_at=int(rng.randint(0, max(1, cap))) if cbk == "stops" else None,
            cvg=["abs_rec_error", "rec_error"][int(rng.randint(0, 2))], init=["random", "svd"][int(rng.randint(0, 2))], normalize=bool(rng.rand() < 0.3))
    return cfgs


def run(chk, opts):
    # 1. design: the laws on the guarded model (all option combinations), the line-search bookkeeping, the two crash witnesses
    for cfg, need in (("CPALSMC_guarded.cfg", ()), ("CPALSMC_tolls.cfg", ("Line", "Reduce")), ("CPALSMC_long.cfg", ("Line", "Reduce"))):
        r = chk.design("CPALSMC", cfg, coverage=True, timeout=900)
        chk.notes["design_" + cfg] = r.summary()
        for a in need:
            if not r.coverage.get(a, (0, 0))[0]:
                chk.machinery.append("%s: action %s never taken (vacuous model)" % (cfg, a))
    for cfg, what in BROKEN.items():
        w = tlc.run("CPALSMC", cfg, workers=4, timeout=600)
        chk.states += w.distinct
        chk.transitions += w.generated
        if w.violated != ["NoCrash"]:
            chk.machinery.append("witness %s: violated %s, expected exactly NoCrash" % (cfg, w.violated))
        print("EXTENSION-FINDING: parafac as found violates NoCrash -- %s; the real runs below raise exactly where the model's Crash is enabled" % what)
    # 2. real runs, validated line by line
    cfgs = configs(chk.tier, chk.seed)
    chk.add_cases(cfgs)
    traces = execute_cases(execute, cfgs, repo=chk.repo, chunksize=1)
    events = [e for tr in traces for e in tr]
    kinds = {}
    for e in events:
        kinds[e["ev"]] = kinds.get(e["ev"], 0) + 1
        if e["ev"] != "Call":
            chk.distinct.add((e["ev"], e.get("k"), e.get("m")))
    chk.notes["events_by_kind"] = kinds
    for k in ("LsAcc", "LsFail", "Conv", "CbExit", "Raise", "Err0", "ErrK"):
        if not kinds.get(k):
            chk.machinery.append("no %s event recorded: the runs do not exercise that action" % k)
    if not kinds.get("Reduce"):        # needs four consecutive rejected jumps: data dependent; the action is covered by the model runs
        chk.notes["warning"] = "no Reduce event in this seed's runs"
    for e in [x for x in events if x["ev"] in ("LsAcc", "Reduce")][:2]:
        chk.sample(e)
    by_id = {e["id"]: e for e in events}
    by_cfg = {c["id"]: c for c in cfgs}
    for rid, clause, _ in chk.validate("CPALSTrace", events, stateful=True, group_key="tr"):
        e = by_id.get(rid, {})
        chk.violation(rid, clause, case=by_cfg.get(e.get("tr")), event=e)
    chk.rule = "%d parafac runs (verbose=2) over line search x tol x return_errors x callbacks x fixed modes x budgets; one event per printed line" % len(cfgs)
    chk.exhaustive = False
    chk.assumptions += ["the verbose log is the observation: a step that prints nothing is inferred by the specification's silent steps",
                        "error laws are checked on values quantised to 1e-8 (slack 2 units)"]


def replay(chk, rec, opts):
    case = rec["case"]
    events = execute(case)
    by_id = {e["id"]: e for e in events}
    for rid, clause, _ in chk.validate("CPALSTrace", events, stateful=True, group_key="tr"):
        chk.violation(rid, clause, case=case, event=by_id.get(rid))
