"""C19 -- tensor regressors predict with exactly the weights they expose.

Domain = the configurations enumerated by Regress.tla (exported from TLC's design run, where the
theorems about the specification's contraction -- index form = flattened matrix product, linearity,
one-hot read-out, permutation equivariance, quantised CP/Tucker contraction = Factorized.tla's exact
one -- are checked).

  reg   CPRegressor / TuckerRegressor fitted on integer samples (6-12 samples, sample order 1-3,
        scalar / vector / matrix targets for CP, ranks 1-3, reg_W in {0.1, 1, 10}); the event logs the
        exposed weight_tensor_, factors, vec_W_, dense(factors) (through tensorly's C03-bound
        conversion) and predict() on integer samples (random + every one-hot sample), all at 1e-6.
  pls   CP_PLSR: base fit, fit with a constant integer tensor added to every X sample, fit with a
        constant added to Y, fit with permuted samples; scores / loadings / transform / predictions.

RegressTrace.tla decides each event.
"""
import numpy as np

from ..common import ints, qs
from ..lib_watchdog import execute_cases_watchdog

S6 = 10**6
EMPTY = {"shape": [1], "data": [0]}


def _rng(seed, *key):
    return np.random.default_rng([int(seed) & 0x7FFFFFFF] + [int(k) & 0x7FFFFFFF for k in key])


def qt(a):
    """float array -> Tens record of integers at scale 1e6 (sentinels for non-finite values)."""
    a = np.asarray(a, dtype=float)
    return {"shape": [int(s) for s in a.shape], "data": [qs(v, S6) for v in a.ravel()]}


def it(a):
    d, _ = ints(np.asarray(a, dtype=float))
    return {"shape": [int(s) for s in np.shape(a)], "data": d}


# ----------------------------------------------------------------------------- CP / Tucker regressors
def draw_reg(c, seed):
    xs, ys, n = tuple(c["xs"]), tuple(c["ys"]), c["n"]
    rng = _rng(seed, 30, c["model"] == "cp", n, c["rank"], c["reg"], c["k"], REGOPT[c["opt"]][2], c.get("ux", 0) + 100, c.get("uy", 0) + 100, FITFORMS.index(c.get("ff", "f64")), len(ys), *xs)
    X = rng.integers(-3, 4, size=(n,) + xs).astype(float)
    Wtrue = rng.integers(-2, 3, size=xs + ys).astype(float) / 2.0
    y = np.tensordot(X, Wtrue, axes=(list(range(1, X.ndim)), list(range(len(xs))))) + 0.1 * rng.standard_normal((n,) + ys)
    m = 4
    F = int(np.prod(xs))
    Xnew = np.concatenate([rng.integers(-3, 4, size=(m,) + xs).astype(float),
                           np.eye(F).reshape((F,) + xs)], axis=0)
    return X, y, Xnew, int(rng.integers(0, 2**31 - 1))


REGOPT = {"tight": (1e-9, 40, 0), "loose": (1e-2, 40, 1), "cap": (1e-9, 2, 2)}          # tol, n_iter_max, id
PLSOPT = {"default": (1e-9, 200, 0), "tol2": (1e-2, 200, 1), "tol1": (1e-1, 200, 2), "cap": (1e-9, 2, 3)}


def data_form(a, form):
    """The same integer-valued samples in another dtype / memory layout."""
    a = np.asarray(a, dtype=float)
    if form == "uint8":
        return np.abs(a).astype(np.uint8)
    if form in ("negzero", "subnormal"):        # every zero replaced by -0.0 / by the smallest subnormal
        b = a.copy()
        b[b == 0] = -0.0 if form == "negzero" else 5e-324
        return b
    if form in ("float32", "int64", "int32"):
        return a.astype(form)
    if form == "fortran":
        return np.asfortranarray(a)
    if form == "strided":              # every other element of a doubled last axis: non-contiguous view
        big = np.zeros(a.shape[:-1] + (a.shape[-1] * 2,))
        big[..., ::2] = a
        return big[..., ::2]
    raise ValueError(form)


REG_FORMS = ["float32", "int64", "int32", "uint8", "fortran", "strided", "negzero", "subnormal"]
FLOAT_FORMS = ["float32", "fortran", "strided"]      # integer arrays cannot hold data in other units


# Published argument names and order of the pinned tree (frozen here on purpose: NOT read from the live signatures,
# so that an inserted / renamed / re-ordered parameter shows up as a failing call form).
SIG = {"CPRegressor": ["weight_rank", "tol", "reg_W", "n_iter_max", "random_state", "verbose"],
       "TuckerRegressor": ["weight_ranks", "tol", "reg_W", "n_iter_max", "random_state", "verbose"],
       "CP_PLSR": ["n_components", "tol", "n_iter_max", "random_state", "verbose"],
       "reg.fit": ["X", "y"], "reg.predict": ["X"],
       "pls.fit": ["X", "Y"], "pls.predict": ["X"], "pls.transform": ["X", "Y"], "pls.fit_transform": ["X", "Y"], "pls.score": ["X", "Y"]}


def invoke(fn, sig, values, form):
    """Call fn with `values` (name -> value, a prefix of the published list SIG[sig]) in the given call form."""
    names = [n for n in SIG[sig] if n in values]
    assert names == SIG[sig][:len(names)] and len(names) == len(values)
    if form == "pos":
        return fn(*[values[n] for n in names])
    if form == "kw":
        return fn(**{n: values[n] for n in names})
    return fn(values[names[0]], **{n: values[n] for n in names[1:]})


def layout(a, lay):
    """The same values in another memory layout (never C-contiguous and writable at the same time, except "C")."""
    a = np.asarray(a)
    if lay in ("C", "f64") or a.ndim == 0:
        return a
    if lay == "F":
        return np.asfortranarray(a) if a.ndim > 1 else layout(a, "strided")
    if lay == "moved":                      # stored samples-last, handed over through a transposed view
        return np.moveaxis(np.ascontiguousarray(np.moveaxis(a, 0, -1)), -1, 0) if a.ndim > 1 else layout(a, "strided")
    if lay == "strided":
        big = np.zeros(a.shape[:-1] + (a.shape[-1] * 2,), dtype=a.dtype)
        big[..., ::2] = a
        return big[..., ::2]
    if lay == "ro":
        b = a.copy()
        b.setflags(write=False)
        return b
    raise ValueError(lay)


FITFORMS = ["f64", "reg32", "reg64", "x32", "xint", "xF", "xmoved", "xstrided", "xro", "yF"]


def fit_form(X, ff):
    """dtype / memory layout of the training samples (integer valued)."""
    if ff in ("xF", "xmoved", "xstrided", "xro"):
        return layout(X, ff[1:])
    return X.astype(np.float32) if ff == "x32" else X.astype(np.int64) if ff == "xint" else X


def fit_form_y(y, ff):
    return layout(y, "F") if ff == "yF" else layout(y, "ro") if ff == "xro" else y


def reg_form(reg, ff):
    return np.float32(reg) if ff == "reg32" else np.float64(reg) if ff == "reg64" else reg


def precision_gap(est, model):
    """max |weight_tensor_ - dense(factors)| and max |vec_W_ - vec(dense(factors))|, in units of the machine epsilon of
    the dtype the factors came out in, relative to max(1, |W|)  (definitional measurement; 0 on the unchanged tree)."""
    from tensorly.cp_tensor import cp_to_tensor
    from tensorly.tucker_tensor import tucker_to_tensor
    if model == "cp":
        w, fs = est.cp_weight_
        dense = np.asarray(cp_to_tensor((w, fs)))
    else:
        G, fs = est.tucker_weight_
        dense = np.asarray(tucker_to_tensor((G, fs)))
    fd = np.result_type(*[np.asarray(f).dtype for f in fs])
    eps = float(np.finfo(fd).eps) if fd.kind == "f" else 1.0
    scale = max(1.0, float(np.abs(dense).max())) * eps
    wd = float(np.abs(np.asarray(est.weight_tensor_, dtype=float) - dense).max()) / scale
    vd = float(np.abs(np.asarray(est.vec_W_, dtype=float).ravel() - dense.ravel()).max()) / scale
    return {"wd": qs(wd, 1), "vd": qs(vd, 1), "fdtype": str(fd)}


def exec_reg(case):
    import tensorly as tl
    from tensorly.regression.cp_regression import CPRegressor
    from tensorly.regression.tucker_regression import TuckerRegressor
    from tensorly.cp_tensor import cp_to_tensor
    from tensorly.tucker_tensor import tucker_to_tensor
    c = case["cfg"]
    X, y, Xnew, rs = draw_reg(c, case["seed"])
    ux, uy = 2.0 ** c["ux"], 2.0 ** c["uy"]          # units (powers of two: every rescaling below is exact)
    based = c["ux"] == 0 and c["uy"] == 0
    ev = {"id": case["id"], "kind": "reg", "cfg": c, "xnew": it(Xnew)}
    blank = {"weight": EMPTY, "pred": EMPTY, "vec": EMPTY, "dense": EMPTY, "factors": {"fs": [], "w": []}, "forms": [], "refit": {"raised": True},
             "prec": {"wd": 0, "vd": 0, "fdtype": ""}}
    tol, nmax, _ = REGOPT[c["opt"]]
    form = c.get("call", "std")
    ev["params_ok"] = True
    try:
        if c["model"] == "cp":
            given = {"weight_rank": c["rank"], "tol": tol, "reg_W": reg_form(c["reg"] / 10.0, c["ff"]), "n_iter_max": nmax, "random_state": rs, "verbose": 0}
            est = invoke(CPRegressor, "CPRegressor", given, form)
        else:
            given = {"weight_ranks": list(c["ranks"]), "tol": tol, "reg_W": reg_form(c["reg"] / 10.0, c["ff"]), "n_iter_max": nmax, "random_state": rs, "verbose": 0}
            est = invoke(TuckerRegressor, "TuckerRegressor", given, form)
        got = est.get_params()
        ev["params_ok"] = bool(list(got) == SIG["CPRegressor" if c["model"] == "cp" else "TuckerRegressor"] and all(got[k] is given[k] or got[k] == given[k] for k in given))
        invoke(est.fit, "reg.fit", {"X": tl.tensor(fit_form(X * ux, c["ff"])), "y": tl.tensor(fit_form_y(y * uy, c["ff"]))}, form)
    except Exception as ex:
        ev.update(blank)
        ev["fit"] = {"raised": True, "exc": type(ex).__name__, "msg": str(ex)[:120]}
        return ev
    ev["fit"] = {"raised": False, "n_iter": int(est.n_iterations_), "exit": "cap" if int(est.n_iterations_) >= nmax else "converged"}
    try:
        wu = ux / uy                                    # weights carry unit(Y) / unit(X)
        ev["prec"] = precision_gap(est, c["model"])
        ev["weight"] = qt(np.asarray(est.weight_tensor_) * wu)
        ev["vec"] = qt(np.asarray(est.vec_W_) * wu)
        if c["model"] == "cp":
            w, fs = est.cp_weight_
            ev["factors"] = {"fs": [qt(f) for f in fs], "w": qt(w)["data"]} if based else {"fs": [], "w": []}
            ev["dense"] = qt(np.asarray(cp_to_tensor((w, fs))) * wu)
        else:
            G, fs = est.tucker_weight_
            ev["factors"] = {"fs": [qt(f) for f in fs], "core": qt(G)} if based else {"fs": [], "w": []}
            ev["dense"] = qt(np.asarray(tucker_to_tensor((G, fs))) * wu)
        ev["pred"] = qt(np.asarray(invoke(est.predict, "reg.predict", {"X": tl.tensor(Xnew * ux)}, form)) / uy)
        # the same kind of samples in other dtypes / layouts: 4 random samples + the last one-hot sample
        sub = np.concatenate([Xnew[:4], Xnew[-1:]], axis=0)
        forms = []
        for form in (REG_FORMS if based else FLOAT_FORMS):
            xf = data_form(sub, form)
            run = {"form": form, "x": it(xf), "raised": False, "pred": EMPTY}
            try:
                run["pred"] = qt(np.asarray(est.predict(tl.tensor(xf if based else data_form(sub * ux, form)))) / uy)
            except Exception as ex:
                run.update(raised=True, exc=type(ex).__name__)
            forms.append(run)
        ev["forms"] = forms
        # the same object, other parameters, other data of the same shapes: fit again, look again
        X2, y2, _, _ = draw_reg(dict(c, k=c["k"] + 1000), case["seed"])
        rf = {"raised": False, "x": it(sub), "weight": EMPTY, "vec": EMPTY, "dense": EMPTY, "pred": EMPTY}
        try:
            try:                                            # a call that fails (one target too many): caught, object used again
                est.fit(tl.tensor(X2 * ux), tl.tensor(np.concatenate([y2, y2[:1]], axis=0) * uy))
                rf["badfit_raised"] = False
            except Exception:
                rf["badfit_raised"] = True
            est.set_params(reg_W=2.0 * c["reg"] / 10.0)
            est.fit(tl.tensor(fit_form(X2 * ux, c["ff"])), tl.tensor(fit_form_y(y2 * uy, c["ff"])))
            rf["weight"] = qt(np.asarray(est.weight_tensor_) * wu)
            rf["vec"] = qt(np.asarray(est.vec_W_) * wu)
            rf["dense"] = qt(np.asarray(cp_to_tensor(est.cp_weight_) if c["model"] == "cp" else tucker_to_tensor(est.tucker_weight_)) * wu)
            rf["pred"] = qt(np.asarray(est.predict(tl.tensor(sub * ux))) / uy)
            rf["prec"] = precision_gap(est, c["model"])
        except Exception as ex:
            rf.update(raised=True, exc=type(ex).__name__)
        ev["refit"] = rf
    except Exception as ex:
        for k, v in blank.items():
            ev.setdefault(k, v)
        ev["fit"] = {"raised": True, "exc": "after-fit " + type(ex).__name__, "msg": str(ex)[:120]}
    return ev


# ----------------------------------------------------------------------------- CP_PLSR
def draw_pls(c, seed):
    """Well separated synthetic data: orthonormal scores, strengths 6 / 3 / 1.5, small noise."""
    xs, n, ny = tuple(c["xs"]), c["n"], c["ny"]
    rng = _rng(seed, 31, n, ny, c["nc"], c["k"], PLSOPT[c["opt"]][2], c.get("ux", 0) + 100, c.get("uy", 0) + 100,
               ["C", "F", "moved", "strided", "ro"].index(c.get("lay", "C")), ["generic", "contrast", "zerofeat", "selfy"].index(c.get("dat", "generic")), *xs)
    K = min(3, n)
    T_, _ = np.linalg.qr(rng.standard_normal((n, K)))
    sig = np.array([6.0, 3.0, 1.5])[:K]
    X = np.zeros((n,) + xs)
    for k in range(K):
        comp = T_[:, k] * sig[k]
        for d in xs:
            v = rng.standard_normal(d)
            comp = np.multiply.outer(comp, v / np.linalg.norm(v))
        X += comp
    X += 0.01 * rng.standard_normal(X.shape)
    if int(np.prod(xs)) > 50000:          # size regime: unstructured data
        X = rng.standard_normal(X.shape)
    if c.get("dat") == "contrast":        # exact contrast in the last mode: X[..., 1] == -X[..., 0] bit for bit
        X = np.stack([X[..., 0], -X[..., 0]], axis=-1)
    elif c.get("dat") == "zerofeat":      # one feature identically zero
        X[(slice(None),) + (0,) * len(xs)] = 0.0
    cols = max(ny, 1)
    Y = (T_ * sig) @ rng.standard_normal((K, cols)) + 0.01 * rng.standard_normal((n, cols))
    if int(np.prod(xs)) > 50000:
        Y = rng.standard_normal(Y.shape)
    if c.get("dat") == "selfy":           # the targets are the samples
        Y = X.copy()
    if ny == 0:
        Y = Y[:, 0]
    mtest = 4
    Xt = rng.standard_normal((mtest,) + xs)
    C = rng.integers(-3, 4, size=xs).astype(float)
    yoff = int(rng.integers(1, 10))
    perm = rng.permutation(n)
    if n > 1 and np.array_equal(perm, np.arange(n)):
        perm = np.roll(perm, 1)
    return X, Y, Xt, C, yoff, perm


def _new_pls(c):
    from tensorly.regression.cp_plsr import CP_PLSR
    tol, nmax, _ = PLSOPT[c["opt"]]
    return invoke(CP_PLSR, "CP_PLSR", {"n_components": c["nc"], "tol": tol, "n_iter_max": nmax, "random_state": None, "verbose": False},
                  c.get("call", "std"))


def _pls_record(est, Xtrain, Xt, ux=1.0, uy=1.0, form="std"):
    """Scores in units of X, predictions in units of Y (exact power-of-two rescaling); loadings are unit-free."""
    import tensorly as tl
    return {"raised": False,
            "scores": qt(np.asarray(est.X_factors[0]) / ux),
            "loads": [qt(f) for f in est.X_factors[1:]],
            "yload": qt(est.Y_factors[1]),
            "transform": qt(np.asarray(invoke(est.transform, "pls.transform", {"X": tl.tensor(Xtrain.copy())}, form)) / ux),
            "pred": qt(np.asarray(invoke(est.predict, "pls.predict", {"X": tl.tensor(Xt.copy())}, form)) / uy)}


def _fit_pls(c, X, Y, Xtrain_for_transform, Xt, extra=False, perm=None, kbad=0, ux=1.0, uy=1.0):
    lay = c.get("lay", "C")                 # memory layout of the TRAINING data of every fit of this event
    """X, Y, Xt are already in the configuration's units (multiplied by ux / uy); results are logged per unit."""
    import tensorly as tl
    blank = {"scores": EMPTY, "transform": EMPTY, "loads": [], "yload": EMPTY, "pred": EMPTY}
    qx = lambda a: qt(np.asarray(a) / ux)
    qy = lambda a: qt(np.asarray(a) / uy)
    try:
        Xfit = tl.tensor(layout(X.copy(), lay))
        Yfit = Xfit if (c.get("dat") == "selfy" and extra) else tl.tensor(layout(Y.copy(), lay))   # selfy (base fit): the very same object
        est = invoke(_new_pls(c).fit, "pls.fit", {"X": Xfit, "Y": Yfit}, c.get("call", "std"))
        out = _pls_record(est, Xtrain_for_transform, Xt, ux, uy, c.get("call", "std"))
    except Exception as ex:
        blank.update({"raised": True, "exc": type(ex).__name__, "msg": str(ex)[:120]})
        return (blank, {"raised": True}) if extra else blank
    if not extra:
        return out
    x = {"raised": False, "forms": []}
    try:
        x["yscores"] = qy(est.Y_factors[0])
        Xa, Ya = tl.tensor(X.copy()), tl.tensor(Y.copy())
        est.transform(Xa, Ya)
        xt, yt = invoke(est.transform, "pls.transform", {"X": Xa, "Y": Ya}, c.get("call", "std"))          # second query, same arrays
        x["tnone"] = qx(est.transform(tl.tensor(X.copy()), None))
        sc = invoke(est.score, "pls.score", {"X": tl.tensor(X.copy()), "Y": tl.tensor(Y.copy())}, c.get("call", "std"))
        Y2 = np.reshape(Y, (len(Y), -1))
        pr = np.asarray(est.predict(tl.tensor(X.copy())))
        x["score"] = qs(float(sc), S6)
        x["score_def"] = qs(1.0 - float(np.sum((pr - Y2) ** 2)) / float(np.sum((Y2 - np.asarray(est.Y_mean_)) ** 2)), S6)
        x["xt"], x["yt"] = qx(xt), qy(yt)
        ftx, fty = invoke(_new_pls(c).fit_transform, "pls.fit_transform", {"X": tl.tensor(layout(X.copy(), lay)), "Y": tl.tensor(layout(Y.copy(), lay))},
                          c.get("call", "std"))
        x["ftx"], x["fty"] = qx(ftx), qy(fty)
        for form in ("fortran", "strided"):
            run = {"form": form, "raised": False, "transform": EMPTY, "pred": EMPTY}
            try:
                run["transform"] = qx(est.transform(tl.tensor(data_form(X, form))))
                run["pred"] = qy(est.predict(tl.tensor(data_form(Xt, form))))
            except Exception as ex:
                run.update(raised=True, exc=type(ex).__name__)
            x["forms"].append(run)
        try:
            x["again"] = _pls_record(_new_pls(c).fit(tl.tensor(layout(X.copy(), lay)), tl.tensor(layout(Y.copy(), lay))), X, Xt, ux, uy)
        except Exception as ex:
            x["again"] = {"raised": True, "exc": type(ex).__name__}
        # a fit that must be rejected, on the same object: other X values, and (a) one sample too many / (b) a 3-mode Y
        rj = {"raised": False, "exc": "", "transform": EMPTY, "pred": EMPTY}
        Xbad = X + 5.0 * ux
        try:
            if kbad % 2 == 0:
                est.fit(tl.tensor(np.concatenate([Xbad, Xbad[:1]], axis=0)), tl.tensor(Y.copy()))
            else:
                est.fit(tl.tensor(Xbad), tl.tensor(np.reshape(np.stack([Y.reshape(len(Y), -1)] * 2, axis=-1), (len(Y), -1, 2))))
        except Exception as ex:
            rj.update(raised=True, exc=type(ex).__name__)
        rj["transform"] = qx(est.transform(tl.tensor(X.copy())))
        rj["pred"] = qy(est.predict(tl.tensor(Xt.copy())))
        x["reject"] = rj
        # ... and fitted again on the permuted samples
        try:
            est.fit(tl.tensor(layout(X[perm].copy(), lay)), tl.tensor(layout(Y[perm].copy(), lay)))
            x["refit"] = _pls_record(est, X[perm], Xt, ux, uy)
        except Exception as ex:
            x["refit"] = {"raised": True, "exc": type(ex).__name__}
    except Exception as ex:
        x = {"raised": True, "exc": type(ex).__name__, "msg": str(ex)[:120]}
    return out, x


def exec_pls(case):
    c = case["cfg"]
    X, Y, Xt, C, yoff, perm = draw_pls(c, case["seed"])
    ux, uy = 2.0 ** c["ux"], 2.0 ** c["uy"]          # units: powers of two, every rescaling is exact
    X, Xt, C, Y = X * ux, Xt * ux, C * ux, Y * uy
    u = dict(ux=ux, uy=uy)
    ev = {"id": case["id"], "kind": "pls", "cfg": c, "perm": [int(p) for p in perm], "yoff": yoff, "mtest": int(Xt.shape[0])}
    try:
        got = _new_pls(c).get_params()
        tol, nmax, _ = PLSOPT[c["opt"]]
        want = {"n_components": c["nc"], "tol": tol, "n_iter_max": nmax, "random_state": None, "verbose": False}
        ev["params_ok"] = bool(list(got) == SIG["CP_PLSR"] and all(got[k] == want[k] for k in want))
    except Exception:
        ev["params_ok"] = False
    ev["base"], ev["extra"] = _fit_pls(c, X, Y, X, Xt, extra=True, perm=perm, kbad=c["nc"] + c["ny"], **u)
    ev["shiftx"] = _fit_pls(c, X + C, Y, X + C, Xt + C, **u)           # constant tensor added to every sample (train and new)
    ev["shifty"] = _fit_pls(c, X, Y + float(yoff) * uy, X, Xt, **u)    # constant added to Y: predictions move by the same offset
    ev["permfit"] = _fit_pls(c, X[perm], Y[perm], X[perm], Xt, **u)    # samples permuted
    return ev


EXEC = {"reg": exec_reg, "pls": exec_pls}


def hung_event(case):
    """A case whose worker had to be killed (the fit / predict never returned): reported as exception class 'Timeout'."""
    c = case["cfg"]
    if c["kind"] == "reg":
        return {"id": case["id"], "kind": "reg", "cfg": c, "xnew": {"shape": [1] + list(c["xs"]), "data": [0] * int(np.prod(c["xs"]))},
                "fit": {"raised": True, "exc": "Timeout"}, "weight": EMPTY, "pred": EMPTY, "vec": EMPTY, "dense": EMPTY,
                "factors": {"fs": [], "w": []}, "forms": [], "refit": {"raised": True}, "prec": {"wd": 0, "vd": 0, "fdtype": ""}, "params_ok": True}
    blank = {"raised": True, "exc": "Timeout", "scores": EMPTY, "transform": EMPTY, "loads": [], "yload": EMPTY, "pred": EMPTY}
    return {"id": case["id"], "kind": "pls", "cfg": c, "perm": list(range(c["n"])), "yoff": 1, "mtest": 4, "params_ok": True,
            "base": dict(blank), "extra": {"raised": True}, "shiftx": dict(blank), "shifty": dict(blank), "permfit": dict(blank)}


def execute(case):
    return EXEC[case["cfg"]["kind"]](case)


def run(chk, opts):
    thorough = chk.tier == "thorough"
    r, cfgs = chk.export_configs("Regress", "RegressMC_thorough.cfg" if thorough else "RegressMC_quick.cfg",
                                 keep=lambda c: c.get("kind") in EXEC)
    chk.notes["design_run"] = r.summary()
    cfgs.sort(key=lambda c: (c["kind"], str(c)))
    cases = [{"id": "C19/%s/%05d" % (c["kind"], k), "cfg": c, "seed": chk.seed,
              "derived": {"sample_order": len(c["xs"]), "scalar_target": len(c.get("ys", [0])) == 0}} for k, c in enumerate(cfgs)]
    chk.add_cases(cases)
    events = execute_cases_watchdog(execute, cases, hung_event, repo=chk.repo, cpu_budget_s=float(opts.get("cpu_budget", 60)))
    count = {}
    for c in cfgs:
        key = c.get("model", c["kind"])
        count[key] = count.get(key, 0) + 1
    chk.notes["domain"] = count
    chk.rule = ("every configuration of Regress.tla's domain (exported from TLC's design run): %s; sample counts 6/9/12, sample shapes "
                "(3),(4),(3,2),(2,3),(2,2,2),(3,2,2), CP targets scalar/(2)/(2,3), ranks 1-3, reg_W 0.1/1/10, PLS responses vector/1/2/3 columns, "
                "1-3 components; data drawn from VERIF_SEED; distinct = distinct configurations" % ", ".join("%s=%d" % kv for kv in sorted(count.items())))
    byid = {}
    for e in events:
        byid[e.get("id")] = e
        if "cfg" in e:
            chk.distinct.add(e["id"])
    exits = {}
    for e in events:
        if e.get("kind") == "reg":
            key = "%s/%s/%s" % (e["cfg"]["model"], e["cfg"]["opt"], "raised" if e["fit"]["raised"] else e["fit"]["exit"])
            exits[key] = exits.get(key, 0) + 1
    chk.notes["fit_exits"] = exits          # both exit paths of the fitting loops are exercised
    for kind in ("reg", "pls"):
        for e in events:
            if e.get("kind") == kind and len(str(e)) < 2800:
                chk.sample(e)
                break
    for rid, clause, _ in chk.validate("RegressTrace", events):
        chk.violation(rid, clause, event=byid.get(rid))
    chk.exhaustive = len(chk.distinct) == len(cfgs) and not chk.machinery
    chk.assumptions += ["NumPy backend only",
                        "weights / predictions compared at 1e-6 with the accumulated rounding bound PredTol computed in the spec from the samples",
                        "dense(cp_weight_/tucker_weight_) is measured through tensorly's cp_to_tensor/tucker_to_tensor (bound to the spec by C03) and, when the factor "
                        "magnitudes allow 32-bit arithmetic, recomputed inside TLC from the quantised factors",
                        "PLS invariances asserted on well-separated synthetic data (orthonormal scores, strengths 6/3/1.5, noise 0.01), tolerance 1e-6"]


def replay(chk, rec, opts):
    case = rec["case"]
    ev = execute(case)
    chk.sample(ev)
    for rid, clause, _ in chk.validate("RegressTrace", [ev]):
        chk.violation(rid, clause, case=case, event=ev)
