"""C17 rig: drives the real BackendManager / TenalgBackendManager with real threads.

Runs as its own process:  python -m harness.drivers.c17_rig <repo> <jobfile.json> <out.ndjson>
The *main* thread of this process imported tensorly, so it is the model's importing thread "t0";
a controller thread schedules operations, worker threads are "t1", "t2".

Job kinds
  {"kind": "programs", "traces": [[op, ...], ...]}   operation-level schedules (controller mode);
       op = {"ev": "Set"|"Enter"|"Exit"|"Query", "t": "t1", "m": "be"|"ta", "name": ..., "loc": bool,
             "how": "normal"|"exception"}
  {"kind": "free", "traces": [{"t0": [op...], "t1": [...], "t2": [...]}, ...]}   free-running threads,
       a lock makes (operation + own observation + log line) atomic; contexts use __enter__/__exit__.
Every executed operation is logged with the observations made after it.
"""
import json
import queue
import sys
import threading
import traceback

THREADS = ["t0", "t1", "t2"]
DEFAULT = {"be": "numpy", "ta": "core"}


class _Boom(Exception):
    pass


class _Halt(BaseException):
    """Stands for KeyboardInterrupt / GeneratorExit / SystemExit leaving a `with` body."""


def setup(repo):
    if repo not in sys.path:
        sys.path.insert(0, repo)
    import warnings
    warnings.filterwarnings("ignore")
    import numpy as np
    import tensorly as tl
    from tensorly import tenalg
    from tensorly.backend.numpy_backend import NumpyBackend
    from tensorly.tenalg.base_tenalg import TenalgBackend

    # stand-in computational backends registered under two other *known* names
    def mk(name):
        class _StandIn(NumpyBackend, backend_name=name):
            @staticmethod
            def arcsinh(x):
                return name
        _StandIn.__name__ = "StandIn_" + name
        return _StandIn
    for n in ("jax", "cupy"):
        mk(n)
    # pre-warm the caches (Load is explored in the model only)
    for n in ("numpy", "jax", "cupy"):
        tl.backend.load_backend(n) if hasattr(tl.backend, "load_backend") else None
    for n in ("core", "einsum"):
        tenalg.load_backend(n)
    # tag which tenalg backend class actually ran the dispatched `outer`
    ran = threading.local()
    for n, cls in TenalgBackend._available_tenalg_backends.items():
        orig = cls.__dict__["outer"].__func__ if isinstance(cls.__dict__.get("outer"), staticmethod) else getattr(cls, "outer")

        def wrap(orig=orig, n=n):
            def outer(tensors):
                ran.name = n
                return orig(tensors)
            return outer
        cls.register_method("outer", wrap())
    # ---- tag EVERY probed dispatched function with the backend class that actually ran it
    BE_PROBES = ["shape", "ndim", "copy", "sum", "abs", "sqrt", "max", "min", "transpose", "sign", "prod", "mean", "argmax", "conj", "exp"]
    TA_PROBES = ["outer", "inner", "kronecker", "khatri_rao", "mode_dot"]
    be_ran = threading.local()
    numpy_inst = tl.backend.load_backend("numpy")
    origs = {n: getattr(numpy_inst, n) for n in BE_PROBES}
    from tensorly.backend.core import Backend as _B
    for bname, cls in _B._available_backends.items():
        if bname not in ("numpy", "jax", "cupy"):
            continue
        for n in BE_PROBES:
            def tagged(orig=origs[n], bname=bname):
                def f(*a, **k):
                    be_ran.name = bname
                    return orig(*a, **k)
                return f
            setattr(cls, n, staticmethod(tagged()))
    for n, cls in TenalgBackend._available_tenalg_backends.items():
        for fn in TA_PROBES:
            if fn == "outer":
                continue          # already tagged above
            o = cls.__dict__[fn].__func__ if isinstance(cls.__dict__.get(fn), staticmethod) else getattr(cls, fn)

            def wrap2(o=o, n=n):
                def g(*a, **k):
                    ran.name = n
                    return o(*a, **k)
                return g
            cls.register_method(fn, wrap2())
    # second, unregistered instances of the same backend classes: selected by OBJECT ("<name>_alt")
    ALT = {"be": {}, "ta": {}}
    REG = {"be": {}, "ta": {}}
    for n in ("numpy", "jax", "cupy"):
        tl.set_backend(n)
        REG["be"][n] = tl.backend.current_backend()
        ALT["be"][n + "_alt"] = type(REG["be"][n])()
    for n in ("core", "einsum"):
        tenalg.set_backend(n)
        REG["ta"][n] = tenalg.current_backend()
        ALT["ta"][n + "_alt"] = type(REG["ta"][n])()
    setup.ALT = ALT

    def inst_tag(m, obj):
        for n, o_ in REG[m].items():
            if obj is o_:
                return n
        for n, o_ in ALT[m].items():
            if obj is o_:
                return n
        return "other:" + str(getattr(obj, "backend_name", "?"))
    tl.set_backend("numpy")
    tenalg.set_backend("core")
    vec = np.ones(2)
    mat = np.ones((2, 2))
    MGR = {"be": tl.backend, "ta": tenalg}
    counter = {"n": 0}
    TA_ARGS = {"outer": lambda: ([vec, vec],), "inner": lambda: (vec, vec), "kronecker": lambda: ([mat, mat],),
               "khatri_rao": lambda: ([mat, mat],), "mode_dot": lambda: (mat, mat, 0)}

    import tensorly.cp_tensor as _cpmod
    import tensorly.tucker_tensor as _tkmod
    TA_TOP = {"khatri_rao": (_cpmod, lambda: ([mat, mat],)), "mode_dot": (_tkmod, lambda: (mat, mat, 0))}

    def observe():
        """What this thread sees: `state` = reported names, `attr` = what names looked up on the manager run on,
        `top` = what import-time re-exports (tensorly.<fn>, tensorly.cp_tensor.khatri_rao ...) run on."""
        o = {"be": {"state": {}, "attr": {}, "top": {}}, "ta": {"state": {}, "attr": {}, "top": {}}}
        try:
            o["be"]["state"]["get"] = str(tl.get_backend())
            o["be"]["state"]["cur"] = str(tl.backend.current_backend().backend_name)
            o["be"]["inst"] = {"obj": inst_tag("be", tl.backend.current_backend())}
            r = tl.backend.arcsinh(0.0)
            o["be"]["attr"]["fdisp"] = r if isinstance(r, str) else "numpy"
            o["be"]["attr"]["adisp"] = str(tl.backend.backend_name)
            r2 = tl.arcsinh(0.0)           # the wrapper re-exported at top level
            o["be"]["top"]["topdisp"] = r2 if isinstance(r2, str) else "numpy"
            # three more dispatched functions, rotating through the probe list (manager attribute and top-level re-export)
            counter["n"] += 1
            for j in range(3):
                name = BE_PROBES[(counter["n"] * 3 + j) % len(BE_PROBES)]
                be_ran.name = "norun"
                (getattr(tl.backend, name) if j % 2 == 0 else getattr(tl, name))(vec if name != "transpose" else mat)
                o["be"]["attr" if j % 2 == 0 else "top"]["p%d" % j] = be_ran.name
        except Exception as ex:
            o["be"]["state"]["get"] = "error:" + type(ex).__name__
        try:
            o["ta"]["state"]["get"] = str(tenalg.get_backend())
            o["ta"]["state"]["cur"] = str(tenalg.current_backend().backend_name)
            o["ta"]["inst"] = {"obj": inst_tag("ta", tenalg.current_backend())}
            ran.name = "norun"
            tenalg.outer([vec, vec])
            o["ta"]["attr"]["fdisp"] = ran.name
            name = TA_PROBES[counter["n"] % len(TA_PROBES)]
            ran.name = "norun"
            getattr(tenalg, name)(*TA_ARGS[name]())
            o["ta"]["attr"]["p0"] = ran.name
            tname = ["khatri_rao", "mode_dot"][counter["n"] % 2]
            mod, args = TA_TOP[tname]
            ran.name = "norun"
            getattr(mod, tname)(*args())
            o["ta"]["top"]["p1"] = ran.name
        except Exception as ex:
            o["ta"]["state"]["get"] = "error:" + type(ex).__name__
        return o
    return MGR, observe


def _arg(m, name):
    """The argument of a selection: a name, or -- for "<name>_alt" -- a backend INSTANCE."""
    return setup.ALT.get(m, {}).get(name, name)


DECOS = {}
DECO_LOCK = threading.Lock()


class Actor:
    """One model thread. `serve()` runs in the real thread and executes commands one at a time."""

    def __init__(self, name, MGR, observe):
        self.name, self.MGR, self.observe = name, MGR, observe
        self.inbox, self.outbox = queue.Queue(), queue.Queue()

    def call(self, cmd):
        self.inbox.put(cmd)
        return self.outbox.get()

    def serve(self):
        r = self.level(0)
        self.outbox.put(("stopped",))
        return r

    def level(self, depth):
        while True:
            cmd = self.inbox.get()
            op = cmd["ev"]
            if op == "Stop":
                return "stop"
            if op == "Obs":
                self.outbox.put(self.observe())
                continue
            if op == "Query":
                self.outbox.put(("ok", ""))
                continue
            mgr = self.MGR[cmd["m"]]
            if op in ("Static", "Dynamic"):
                try:
                    (mgr.use_static_dispatch if op == "Static" else mgr.use_dynamic_dispatch)()
                    self.outbox.put(("ok", ""))
                except Exception as ex:
                    self.outbox.put(("raised", type(ex).__name__))
                continue
            if op == "Set":
                try:
                    if cmd.get("pos"):       # the flavour handed over positionally
                        mgr.set_backend(_arg(cmd["m"], cmd["name"]), cmd["loc"])
                    else:
                        mgr.set_backend(_arg(cmd["m"], cmd["name"]), local_threadsafe=cmd["loc"])
                    self.outbox.put(("ok", ""))
                except Exception as ex:
                    self.outbox.put(("raised", type(ex).__name__))
                continue
            if op == "Exit":
                if depth == 0:
                    self.outbox.put(("raised", "NoContext"))
                    continue
                return cmd["how"]
            if op == "Enter":
                entered = False
                r = None
                box = {}

                def body():
                    box["entered"] = True
                    self.outbox.put(("ok", ""))
                    box["r"] = self.level(depth + 1)
                    if box["r"] == "exception":
                        raise _Boom()
                    if box["r"] == "base_exception":
                        raise _Halt()
                try:
                    if cmd.get("form") == "deco":
                        # the context object used as a decorator: ONE object per (manager, backend, flavour), created once and
                        # shared by all threads and all (nested) activations, as `@tl.backend_context(...)` on a function is
                        key = (cmd["m"], cmd["name"], cmd["loc"])
                        with DECO_LOCK:
                            if key not in DECOS:
                                DECOS[key] = mgr.backend_context(_arg(cmd["m"], cmd["name"]), local_threadsafe=cmd["loc"])
                        try:
                            DECOS[key](body)()
                        finally:
                            entered, r = box.get("entered", False), box.get("r")
                    else:
                        try:
                            with (mgr.backend_context(_arg(cmd["m"], cmd["name"]), cmd["loc"]) if cmd.get("pos") else
                                  mgr.backend_context(_arg(cmd["m"], cmd["name"]), local_threadsafe=cmd["loc"])):
                                body()
                        finally:
                            entered, r = box.get("entered", False), box.get("r")
                    res = ("ok", "")
                except (_Boom, _Halt):
                    res = ("ok", "")
                except Exception as ex:
                    if not entered:
                        self.outbox.put(("raised", type(ex).__name__))
                        continue
                    res = ("raised", type(ex).__name__)
                if r == "stop":
                    return "stop"       # unwinding at the end of a trace: nobody waits for a reply
                self.outbox.put(res)
                continue
            self.outbox.put(("raised", "BadCommand"))


def run_programs(job, MGR, observe, out):
    """Controller mode. Must be called from a helper thread; main thread serves as t0."""
    raise NotImplementedError


def main():
    repo, jobfile, outpath = sys.argv[1:4]
    with open(jobfile) as fh:
        job = json.load(fh)
    MGR, observe = setup(repo)
    out = open(outpath, "w")
    nthreads = job.get("threads", 3)
    names = THREADS[:nthreads]
    state = {"err": None}

    def emit(ev):
        out.write(json.dumps(ev, separators=(",", ":")) + "\n")

    main_actor_box = {}

    def reset_main():
        # (re)establish Init for the importing thread and the shared defaults
        for m in ("be", "ta"):
            MGR[m].set_backend(DEFAULT[m])
            if job.get("modes"):
                MGR[m].use_dynamic_dispatch()

    def controller():
        try:
            for ti, tr in enumerate(job["traces"]):
                tid = "%s%d" % (job.get("prefix", "p"), ti)
                if job["kind"] == "programs":
                    ctl_programs(tid, tr)
                else:
                    ctl_free(tid, tr)
        except Exception:
            state["err"] = traceback.format_exc()
        finally:
            main_actor_box["q"].put(None)

    # ---- the main thread executes callables handed over by the controller (it is "t0")
    main_q = queue.Queue()
    main_actor_box["q"] = main_q

    def on_main(fn):
        done = queue.Queue()
        main_q.put((fn, done))
        return done

    def start_actors():
        actors = {}
        for n in names:
            a = Actor(n, MGR, observe)
            actors[n] = a
            if n == "t0":
                a.done = on_main(a.serve)
            else:
                th = threading.Thread(target=a.serve, name=n, daemon=True)
                th.start()
                a.thread = th
        return actors

    def stop_actors(actors):
        for n, a in actors.items():
            a.inbox.put({"ev": "Stop"})
        for n, a in actors.items():
            # drain until stopped
            while True:
                r = a.outbox.get()
                if r == ("stopped",):
                    break
            if n == "t0":
                a.done.get()
            else:
                a.thread.join()
        on_main(reset_main).get()

    def ctl_programs(tid, ops):
        on_main(reset_main).get()
        actors = start_actors()
        emit({"id": tid + "/0", "tr": tid, "ev": "Reset"})
        for k, op in enumerate(ops):
            a = actors[op["t"]]
            outcome, exc = a.call(op)
            obs = {n: actors[n].call({"ev": "Obs"}) for n in names}
            e = {"id": "%s/%d" % (tid, k + 1), "tr": tid, "ev": op["ev"], "t": op["t"], "m": op.get("m", "be"),
                 "name": op.get("name", "none"), "loc": bool(op.get("loc", False)), "how": op.get("how", "normal"),
                 "out": outcome, "exc": exc, "obs": obs}
            if op["ev"] == "Enter":
                e["form"] = op.get("form", "with")
            if op.get("pos"):
                e["pos"] = True
            emit(e)
            if outcome == "raised" and op["ev"] == "Exit":
                break   # state of the real system is no longer tracked by the schedule
        stop_actors(actors)

    def ctl_free(tid, progs):
        """Free-running threads; explicit __enter__/__exit__; lock => atomic (op, own obs, log)."""
        on_main(reset_main).get()
        lock = threading.Lock()
        log = []
        barrier = threading.Barrier(len(progs))

        def body(n, ops):
            stack = []
            barrier.wait()
            for op in ops:
                with lock:
                    mgr = MGR[op.get("m", "be")]
                    outcome, exc = "ok", ""
                    try:
                        if op["ev"] in ("Static", "Dynamic"):
                            (mgr.use_static_dispatch if op["ev"] == "Static" else mgr.use_dynamic_dispatch)()
                        elif op["ev"] == "Set":
                            mgr.set_backend(_arg(op["m"], op["name"]), local_threadsafe=op["loc"])
                        elif op["ev"] == "Enter":
                            cm = mgr.backend_context(_arg(op["m"], op["name"]), local_threadsafe=op["loc"])
                            cm.__enter__()
                            stack.append((cm, op["m"]))
                        elif op["ev"] == "Exit":
                            if not stack:
                                continue
                            cm, m = stack.pop()
                            op = dict(op, m=m)
                            if op["how"] in ("exception", "base_exception"):
                                try:
                                    raise (_Boom() if op["how"] == "exception" else _Halt())
                                except (_Boom, _Halt):
                                    ei = sys.exc_info()
                                    try:
                                        cm.__exit__(*ei)
                                    except (_Boom, _Halt):
                                        pass
                            else:
                                cm.__exit__(None, None, None)
                    except Exception as ex:
                        outcome, exc = "raised", type(ex).__name__
                    log.append({"tr": tid, "ev": op["ev"], "t": n, "m": op.get("m", "be"), "name": op.get("name", "none"),
                                "loc": bool(op.get("loc", False)), "how": op.get("how", "normal"), "out": outcome,
                                "exc": exc, "obs": {n: observe()}})
                    if outcome == "raised" and op["ev"] == "Exit":
                        break
            # leave cleanly: unwind what is still open (not logged; next trace starts with Reset)
            with lock:
                while stack:
                    cm, m = stack.pop()
                    try:
                        cm.__exit__(None, None, None)
                    except Exception:
                        pass
                log.append(None)

        threads = []
        for n in names:
            if n == "t0":
                d0 = on_main(lambda: body("t0", progs.get("t0", [])))
            else:
                th = threading.Thread(target=body, args=(n, progs.get(n, [])), daemon=True)
                th.start()
                threads.append(th)
        d0.get()
        for th in threads:
            th.join()
        on_main(reset_main).get()
        emit({"id": tid + "/0", "tr": tid, "ev": "Reset"})
        k = 0
        # the unlogged unwinding happens after a thread's last logged op; other threads may still log
        # afterwards, so cut the trace at the first unwinding marker to stay exact.
        for e in log:
            if e is None:
                break
            k += 1
            e["id"] = "%s/%d" % (tid, k)
            emit(e)

    ct = threading.Thread(target=controller, daemon=True)
    ct.start()
    while True:
        item = main_q.get()
        if item is None:
            break
        fn, done = item
        try:
            done.put(fn())
        except Exception:
            state["err"] = traceback.format_exc()
            done.put(None)
    ct.join()
    out.close()
    if state["err"]:
        sys.stderr.write(state["err"])
        sys.exit(3)


if __name__ == "__main__":
    main()
