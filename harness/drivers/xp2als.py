"""XP2ALS (extension, not one of the listed properties): the control skeleton of PARAFAC2-ALS with the inner CP-ALS run nested.

P2ALS.tla is implementation-shaped (one action per line parafac2(..., verbose=True) prints) and INSTANCEs CPALS.tla for the
inner parafac of every outer iteration: the log of a real run is a trace of P2ALS, and the inner parafac's lines are a trace
of CPALS inside it.  TLC checks on the model: the last reported error is the error of the current iterate
(LastErrOwnsIterate: violated by the witness deviation F06e, the defect repaired in /repo), reported errors never increase,
the list grows on ordinary iterations and is OVERWRITTEN on line-search iterations (LenLaw), acceleration bookkeeping, the
inner run never outlives its block, exits are justified, termination; a witness shows the as-found crash
(linesearch=True with tol falsy: IndexError at iteration 6).  Real runs are validated line by line: the model reconstructs
the recorded list and compares it with the printed "variation" (second-to-last minus last) and the returned list.
"""
import contextlib
import io
import re

import numpy as np

from .. import tlc
from ..common import execute_cases, qs

SCALE = 10**8


def qe(x):
    return qs(x, SCALE)


LINE = [
    ("P2Start", re.compile(r"^Starting iteration (\d+)$")),
    ("IErr0", re.compile(r"^reconstruction error=(\S+)$")),
    ("IErrK", re.compile(r"^iteration (\d+), reconstruction error: (\S+), decrease = (\S+), unnormalized = (\S+)$")),
    ("IConv", re.compile(r"^PARAFAC converged after (\d+) iterations$")),
    ("LsAcc", re.compile(r"^Accepted line search jump of (\S+)\.$")),
    ("LsFail", re.compile(r"^Line search failed for jump of (\S+)\.$")),
    ("Reduce", re.compile(r"^Reducing acceleration\.$")),
    ("P2ErrK", re.compile(r"^PARAFAC2 reconstruction error=(\S+), variation=(\S+)\.$")),
    ("P2Err0", re.compile(r"^PARAFAC2 reconstruction error=(\S+)$")),
    ("P2Conv", re.compile(r"^converged in (\d+) iterations\.$")),
]


def make_slices(c):
    rng = np.random.RandomState(c["seed"])
    rows, J, r = c["rows"], c["cols"], c["data_rank"]
    if c["data"] == "generic":
        sl = [rng.standard_normal((n, J)) for n in rows]
    else:
        A = rng.random_sample((len(rows), r)) + 0.1
        B = rng.standard_normal((r, r))
        C = rng.standard_normal((J, r))
        sl = []
        for k, n in enumerate(rows):
            P = np.linalg.qr(rng.standard_normal((n, r)))[0]
            S = P @ B @ np.diag(A[k]) @ C.T
            sl.append(S + c.get("noise", 0.0) * np.std(S) * rng.standard_normal(S.shape))
    return [s_ * c["scale"] for s_ in sl] if c.get("scale") else sl


def execute(c):
    from tensorly.decomposition import parafac2
    tid = c["id"]
    sl = make_slices(c)
    buf = io.StringIO()
    out, exc, errs = "ok", "", None
    ls = c["ls"]
    if ls and (c.get("maxfail", 4) != 4 or c.get("accpow", 2) != 2):
        # a line-search object with its own acceleration parameters (documented: `linesearch` may be such an object)
        from tensorly.decomposition._parafac2 import _BroThesisLineSearch
        norm = float(np.sqrt(sum(np.linalg.norm(s_) ** 2 for s_ in sl)))
        ls = _BroThesisLineSearch(norm, "truncated_svd", verbose=True, acc_pow=c.get("accpow", 2), max_fail=c.get("maxfail", 4),
                                  random_state=np.random.RandomState(c["seed"]))
    try:
        with contextlib.redirect_stdout(buf), np.errstate(all="ignore"):
            res = parafac2(sl, c["rank"], n_iter_max=c["cap"], init=c["init"], random_state=c["seed"], tol=c["tol"], verbose=True,
                           linesearch=ls, n_iter_parafac=c["ninner"], return_errors=c["errors"], normalize_factors=c.get("normalize", False))
        if c["errors"]:
            errs = [float(e) for e in res[1]]
    except Exception as ex:          # noqa
        out, exc = "raised", type(ex).__name__
    events = [{"id": tid + "/call", "tr": tid, "ev": "Call",
               "cfg": {"cap": c["cap"], "ls": bool(c["ls"]), "tol": bool(c["tol"]), "errors": bool(c["errors"]), "ninner": c["ninner"],
                       "maxfail": c.get("maxfail", 4), "accpow": c.get("accpow", 2)},
               "errs": [qe(e) for e in (errs or [])], "n_errs": -1 if errs is None else len(errs), "out": out, "exc": exc}]
    n = 0
    for line in buf.getvalue().split("\n"):
        line = line.strip()
        if not line:
            continue
        n += 1
        ev = {"id": "%s/%d" % (tid, n), "tr": tid, "ev": "Unknown", "text": line[:80]}
        for name, rx in LINE:
            m = rx.match(line)
            if not m:
                continue
            ev["ev"] = name
            if name in ("P2Start", "P2Conv"):
                ev["k"] = int(m.group(1))
            elif name == "IErr0" or name == "P2Err0":
                ev["e"] = qe(float(m.group(1)))
            elif name == "IErrK":
                ev["j"], ev["e"], ev["d"] = int(m.group(1)), qe(float(m.group(2))), qe(float(m.group(3)))
            elif name == "IConv":
                ev["j"] = int(m.group(1))
            elif name in ("LsAcc", "LsFail"):
                j = float(m.group(1))
                ev["jump_pows"] = [qs(j ** p, 10**6) for p in range(1, 14)]
            elif name == "P2ErrK":
                e_, v_ = float(m.group(1)), float(m.group(2))
                ev["e"], ev["v"], ev["below"] = qe(e_), qe(v_), bool(c["tol"] and abs(v_) < c["tol"])
            break
        events.append(ev)
    events.append({"id": tid + "/end", "tr": tid, "ev": "Return" if out == "ok" else "Raise", "exc": exc})
    return events


def configs(tier, seed):
    rng = np.random.RandomState(seed + 1313)
    thorough = tier == "thorough"
    cfgs = []

    def add(**kw):
        c = {"id": "p2%04d" % len(cfgs), "seed": int(rng.randint(0, 10**6)), "rows": [5, 5, 5], "cols": 4, "rank": 2, "data_rank": 2, "data": "generic",
             "init": "random", "cap": 8, "ls": False, "tol": 1e-300, "errors": True, "ninner": 2}
        c.update(kw)
        cfgs.append(c)
    for ls in (False, True):
        for tol in (0, 1e-300, 1e-4):
            for errors in (False, True):
                for cap in (0, 1, 3, 7, 8, 9, 14):
                    add(ls=ls, tol=tol, errors=errors, cap=cap, ninner=[1, 2, 5][len(cfgs) % 3], data=["generic", "lowrank"][len(cfgs) % 2],
                        rows=[[5, 5, 5], [4, 6, 5]][len(cfgs) % 2], init=["random", "svd"][(len(cfgs) // 2) % 2])
    for j in range(40 if thorough else 14):          # long line-search runs: accepted and rejected jumps, reductions
        add(ls=True, tol=[1e-300, 1e-12][j % 2], errors=True, cap=[40, 30, 60][j % 3], ninner=[1, 2, 5][j % 3], data=["lowrank", "generic"][j % 2], noise=0.2,
            rows=[[6, 6, 6, 6], [5, 7, 6, 8]][j % 2], cols=5, scale=[None, 1e-2, 50.0][j % 3], normalize=j % 4 == 0)
    for j in range(16 if thorough else 6):            # convergence exits (outer and inner) on exactly low-rank data
        add(ls=j % 2 == 0, tol=[1e-6, 1e-3][j % 2], errors=j % 3 != 0, cap=80, ninner=[5, 20][j % 2], data="lowrank", noise=0.0, rank=2, data_rank=2)
    for j in range(12 if thorough else 4):            # converged fits with the stopping rule practically off: jumps fail, the acceleration is reduced
        add(ls=True, tol=1e-300, errors=True, cap=150, ninner=[2, 5][j % 2], data="lowrank", noise=0.0, rank=2, data_rank=2, rows=[[5, 5, 5], [6, 6, 6, 6]][j % 2])
    for j in range(24 if thorough else 8):            # aggressive acceleration (jump = iteration): jumps fail, acc_pow is reduced step by step
        add(ls=True, tol=1e-300, errors=j % 2 == 0, cap=[40, 25][j % 2], ninner=[1, 2][j % 2], data=["generic", "lowrank"][j % 2], noise=0.3, accpow=1, maxfail=[1, 2, 3][j % 3],
            rows=[[5, 5, 5], [4, 6, 5]][j % 2])
    return cfgs


def run(chk, opts):
    for cfg, need in (("P2ALSMC_all.cfg", ("InnerStep",)), ("P2ALSMC_long.cfg", ("Line", "InnerStep"))):
        r = chk.design("P2ALSMC", cfg, coverage=True, timeout=900)
        chk.notes["design_" + cfg] = r.summary()
        for a in need:
            if not r.coverage.get(a, (0, 0))[0]:
                chk.machinery.append("%s: action %s never taken (vacuous model)" % (cfg, a))
    for cfg, inv, what in (("P2ALSMC_crashline.cfg", "NoCrash", "linesearch=True with tol falsy writes rec_errors[-1] of an empty list (IndexError at iteration 6)"),
                           ("P2ALSMC_F06e.cfg", "LastErrOwnsIterate", "deviation F06e (repaired in /repo): a rejected jump left the previous iteration's error as the last one")):
        w = tlc.run("P2ALSMC", cfg, workers=4, timeout=600, extra=("-continue",))
        chk.states += w.distinct
        chk.transitions += w.generated
        if set(w.violated) != {inv}:
            chk.machinery.append("witness %s: violated %s, expected exactly %s" % (cfg, sorted(set(w.violated)), inv))
        print("%s: model %s violates %s -- %s" % ("EXTENSION-FINDING" if inv == "NoCrash" else "WITNESS", cfg, inv, what))
    cfgs = configs(chk.tier, chk.seed)
    chk.add_cases(cfgs)
    traces = execute_cases(execute, cfgs, repo=chk.repo, chunksize=1)
    events = [e for tr in traces for e in tr]
    kinds = {}
    for e in events:
        kinds[e["ev"]] = kinds.get(e["ev"], 0) + 1
        if e["ev"] != "Call":
            chk.distinct.add((e["ev"], e.get("k"), e.get("j")))
    chk.notes["events_by_kind"] = kinds
    # (IConv -- the inner parafac meeting its own 1e-100 rule -- needs an exactly stationary inner step: exercised by the
    #  model and by CPALS's own binding, not required of these runs)
    for k in ("LsAcc", "LsFail", "Reduce", "P2Conv", "Raise", "P2Err0", "P2ErrK", "IErr0", "IErrK"):
        if not kinds.get(k):
            chk.machinery.append("no %s event recorded: the runs do not exercise that action" % k)
    for e in [x for x in events if x["ev"] in ("LsFail", "P2ErrK")][:2]:
        chk.sample(e)
    by_id = {e["id"]: e for e in events}
    by_cfg = {c["id"]: c for c in cfgs}
    for rid, clause, _ in chk.validate("P2ALSTrace", events, stateful=True, group_key="tr"):
        e = by_id.get(rid, {})
        chk.violation(rid, clause, case=by_cfg.get(e.get("tr")), event=e)
    chk.rule = "%d parafac2 runs (verbose=True) over line search x tol x return_errors x n_iter_parafac x budgets; one event per printed line, inner parafac lines included" % len(cfgs)
    chk.exhaustive = False
    chk.assumptions += ["nn_modes = None (the inner solver is parafac)", "the verbose log is the observation; error laws on values quantised to 1e-8 (slack 2-4 units)"]


def replay(chk, rec, opts):
    case = rec["case"]
    events = execute(case)
    by_id = {e["id"]: e for e in events}
    for rid, clause, _ in chk.validate("P2ALSTrace", events, stateful=True, group_key="tr"):
        chk.violation(rid, clause, case=case, event=by_id.get(rid))
