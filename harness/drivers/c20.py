"""C20 -- factor-similarity metrics are optimal and invariant to CP indeterminacies.

Domain = the configurations enumerated by Matching.tla (exported from TLC's design run, where the
theorems about the specification -- range, invariance of the optimal matching under column
permutation / rescaling, recovery, zero-iff of the correlation index, Cauchy-Schwarz ranges of the
rational error metrics, leverage scores summing to one -- are checked).  Families:

  exact     integer factor sets with rational cosines (spec supplies the matrices): congruence
            coefficient (abs / signed, bare matrix / list), correlation_index (4 methods),
            cp_permute_factors (single tensor / list of tensors)
  generic   random factor sets (values from VERIF_SEED); the harness logs the per-mode cosine matrices
            (definitional measurement) and TLC brute-forces optimality over all R! matchings
  metric    MSE, RMSE, covariance, variance, standard_deviation, correlation, reflective correlation,
            R2_score on random small-integer tensors, every axis argument; exact rationals in TLC
  lev       leverage_score_dist on random matrices (>= 0, sums to one, float64)
  levexact  leverage_score_dist on matrices with mutually orthogonal / repeated integer columns (exact)

MatchingTrace.tla decides each event.
"""
import numpy as np

from ..common import QNAN, execute_cases, ints, qs

METHODS = ["stacked", "max_score", "min_score", "avg_score"]
FLAVOURS = ["normal", "ternary", "noisyperm", "dupcol", "scaled"]
LEVFL = ["normal", "lowrank", "f32", "int", "F", "strided", "ro"]
S6 = 10**6
S8 = 10**8


def qi(x, scale):
    """Quantise to an int; non-finite / out-of-range values become integer sentinels > 2e9 (TLC cannot test
    whether a value is an integer or a string, so every logged number is an integer)."""
    return qs(x, scale)


def _rng(seed, *key):
    return np.random.default_rng([int(seed) & 0x7FFFFFFF] + [int(k) & 0x7FFFFFFF for k in key])


def _cong_records(A, B, M, swaps=(False,)):
    """A, B: lists of float matrices.  swap=True: B (the rescaled set) is passed as matrix1."""
    from tensorly.metrics.factors import congruence_coefficient
    import tensorly as tl
    out = []
    forms = ["list", "bare"] if M == 1 else ["list"]
    for swap in swaps:
        P, Q = (B, A) if swap else (A, B)
        for abs_ in (True, False):
            for form in forms:
                a = tl.tensor(P[0].copy()) if form == "bare" else [tl.tensor(m.copy()) for m in P]
                b = tl.tensor(Q[0].copy()) if form == "bare" else [tl.tensor(m.copy()) for m in Q]
                try:
                    val, perm = congruence_coefficient(a, b, absolute_value=abs_)
                    out.append({"abs": abs_, "form": form, "swap": swap, "raised": False, "val": qi(val, S6), "perm": [int(x) for x in perm]})
                except Exception as ex:
                    out.append({"abs": abs_, "form": form, "swap": swap, "raised": True, "exc": type(ex).__name__, "val": QNAN, "perm": []})
    return out


def _corr_records(A, B):
    from tensorly.metrics.similarity import correlation_index
    import tensorly as tl
    corr = {}
    for m in METHODS:
        try:
            corr[m] = qi(correlation_index([tl.tensor(x.copy()) for x in A], [tl.tensor(x.copy()) for x in B], method=m), S6)
        except Exception as ex:
            corr[m] = QNAN
    return corr


def _cp(weights, factors):
    import tensorly as tl
    from tensorly.cp_tensor import CPTensor
    return CPTensor((tl.tensor(np.array(weights, dtype=float)), [tl.tensor(np.array(f, dtype=float)) for f in factors]))


def layout(a, lay):
    """The same values in another memory layout: Fortran order, a non-contiguous view, a read-only array."""
    a = np.asarray(a)
    if lay == "C" or a.ndim == 0:
        return a
    if lay == "F" and a.ndim > 1:
        return np.asfortranarray(a)
    if lay in ("F", "strided"):
        big = np.zeros(a.shape[:-1] + (a.shape[-1] * 2,), dtype=a.dtype)
        big[..., ::2] = a
        return big[..., ::2]
    if lay == "ro":
        b = a.copy()
        b.setflags(write=False)
        return b
    raise ValueError(lay)


# Published argument names and order of the pinned tree (frozen on purpose, not read from the live signatures)
SIG = {"congruence_coefficient": ["matrix1", "matrix2", "absolute_value"],
       "correlation_index": ["factors_1", "factors_2", "tol", "method"],
       "cp_permute_factors": ["ref_cp_tensor", "tensors_to_permute"],
       "leverage_score_dist": ["matrix"],
       "MSE": ["y_true", "y_pred", "axis"], "RMSE": ["y_true", "y_pred", "axis"], "R2": ["X_original", "X_predicted"],
       "reflective": ["y_true", "y_pred", "axis"], "covariance": ["y_true", "y_pred", "axis"], "correlation": ["y_true", "y_pred", "axis"],
       "variance": ["y", "axis"], "std": ["y", "axis"]}


def invoke(fn, sig, values, form, npos=2):
    """values: name -> value for a prefix of SIG[sig].  "pos": all positional; "kw": all by name; "std": the first
    `npos` positional, the rest by name."""
    names = [n for n in SIG[sig] if n in values]
    assert names == SIG[sig][:len(names)] and len(names) == len(values)
    if form == "pos":
        return fn(*[values[n] for n in names])
    if form == "kw":
        return fn(**{n: values[n] for n in names})
    return fn(*[values[n] for n in names[:npos]], **{n: values[n] for n in names[npos:]})


def _permute(ref, targets, form="std"):
    """cp_permute_factors plus a definitional measurement: does a returned tensor share memory with the caller's
    tensor it was made from?  (_permute.alias: one flag per returned tensor)"""
    from tensorly.cp_tensor import cp_permute_factors
    tl_list = list(targets) if isinstance(targets, list) else [targets]
    held = [[np.asarray(t.weights)] + [np.asarray(f) for f in t.factors] for t in tl_list]
    out, perms = invoke(cp_permute_factors, "cp_permute_factors", {"ref_cp_tensor": ref, "tensors_to_permute": targets}, form)
    outs = out if isinstance(out, list) else [out]
    _permute.alias = [bool(any(np.shares_memory(a, b) for a in [np.asarray(o.weights)] + [np.asarray(f) for f in o.factors] for b in h))
                      for o, h in zip(outs, held)]
    return out, perms


_permute.alias = []


def _rows(a):
    d, ex = ints(a)
    a = np.asarray(a)
    return [d[r * a.shape[1]:(r + 1) * a.shape[1]] for r in range(a.shape[0])], ex


def _exact_options(c, A, B, w):
    """Options and argument forms on the integer patterns: correlation_index(tol=...) with float32 / float64 factor sets,
    and mixed dtypes between the two arguments (integer first set + halved, i.e. half-integer, float second set;
    float32 + float64) for congruence_coefficient, correlation_index and cp_permute_factors."""
    import tensorly as tl
    from tensorly.metrics.factors import congruence_coefficient
    from tensorly.metrics.similarity import correlation_index
    from tensorly.cp_tensor import CPTensor, cp_permute_factors
    R = c["R"]
    Ai = [a.astype(np.int64) for a in A]
    Bh = [b * 0.5 for b in B]
    out = {"corr": [], "cong": [], "permute": []}
    combos = [(t, dt, False) for t in (1, 2) for dt in ("f32", "f64")] + [(0, "f32", False), (0, "i64/f64h", False), (0, "i64/f64h", True),
                                                                          (0, "F/str", False), (0, "ro/ro", False)]
    lay_pair = {"F/str": ("F", "strided"), "ro/ro": ("ro", "ro")}
    tolv = {1: 1e-5, 2: 1e-3}
    for t, dt, swap in combos:
        if dt == "i64/f64h":
            P, Q = Ai, Bh
        elif dt in lay_pair:
            P, Q = [layout(a, lay_pair[dt][0]) for a in A], [layout(b, lay_pair[dt][1]) for b in B]
        else:
            tp = np.float32 if dt == "f32" else np.float64
            P, Q = [a.astype(tp) for a in A], [b.astype(tp) for b in B]
        if swap:
            P, Q = Q, P
        for m in METHODS:
            rec = {"tol": t, "dt": dt, "swap": swap, "method": m, "raised": False, "val": 0, "zero": False}
            try:
                kw = {"tol": tolv[t]} if t else {}
                cp_ = (lambda x: x) if dt in lay_pair else (lambda x: tl.tensor(x.copy()))
                sc = correlation_index([cp_(x) for x in P], [cp_(x) for x in Q], method=m, **kw)
                rec.update(val=qi(sc, S6), zero=bool(sc == 0))
            except Exception as ex:
                rec.update(raised=True, exc=type(ex).__name__)
            out["corr"].append(rec)
    for mix in ("i64/f64h", "f32/f64", "F/str", "ro/ro"):
        if mix in lay_pair:
            P0, Q0 = [layout(a, lay_pair[mix][0]) for a in A], [layout(b, lay_pair[mix][1]) for b in B]
        else:
            P0, Q0 = (Ai, Bh) if mix == "i64/f64h" else ([a.astype(np.float32) for a in A], B)
        for swap in (False, True):
            P, Q = (Q0, P0) if swap else (P0, Q0)
            rec = {"mix": mix, "abs": True, "form": "list", "swap": swap, "raised": False, "val": QNAN, "perm": []}
            try:
                keep = (lambda x: x) if mix in lay_pair else (lambda x: tl.tensor(x.copy()))
                val, perm = congruence_coefficient([keep(x) for x in P], [keep(x) for x in Q])
                rec.update(val=qi(val, S6), perm=[int(x) for x in perm])
            except Exception as ex:
                rec.update(raised=True, exc=type(ex).__name__)
            out["cong"].append(rec)
    for ref, target, mix in (("A", "B", "i64/f64h"), ("B", "A", "i64/f64h"), ("A", "B", "F/str"), ("A", "B", "ro/ro")):
        if mix == "i64/f64h":
            srcs = {"A": (np.ones(R), Ai), "B": (np.asarray(w, dtype=float), Bh)}
            mk = lambda wt, fs: CPTensor((tl.tensor(np.array(wt, dtype=float)), [tl.tensor(f.copy()) for f in fs]))
        else:
            la, lb = lay_pair[mix]
            srcs = {"A": (layout(np.ones(R), la), [layout(a, la) for a in A]), "B": (layout(np.asarray(w, dtype=float), lb), [layout(b, lb) for b in B])}
            mk = lambda wt, fs: CPTensor((wt, list(fs)))            # the arrays themselves, in their layout
        rec = {"form": "single", "ref": ref, "target": target, "mix": mix, "raised": False, "perm": [], "exact": True, "factors": [], "weights": [],
               "eqf": False, "eqw": False, "alias": False}
        try:
            t, perms = _permute(mk(*srcs[ref]), mk(*srcs[target]))
            perm = [int(x) for x in np.asarray(perms[0]).ravel()]
            sw, sf = srcs[target]
            ok = len(perm) == R and all(0 <= x < R for x in perm)
            rec.update(alias=bool(_permute.alias[0]), perm=perm, eqf=bool(ok and all(np.array_equal(np.asarray(f), b[:, perm]) for f, b in zip(t.factors, sf))),
                       eqw=bool(ok and np.array_equal(np.asarray(t.weights), sw[perm])))
            if target == "A" or mix != "i64/f64h":
                facs, exact = [], True
                for f in t.factors:
                    rows, ex = _rows(f)
                    facs.append(rows)
                    exact = exact and ex
                wd, ex = ints(t.weights)
                rec.update(factors=facs, weights=wd, exact=bool(exact and ex))
        except Exception as ex:
            rec.update(raised=True, exc=type(ex).__name__)
        out["permute"].append(rec)
    if (c["R"] + c["M"] + c["s"]) % 2 == 0:        # rotated over the configurations (MatchingTrace.ExtraOn)
        _extra_forms(c, A, B, w, out)
    return out


def _zeros_as(a, spelling):
    b = np.array(a, dtype=float)
    b[b == 0] = -0.0 if spelling == "negzero" else 5e-324
    return b


def _extra_forms(c, A, B, w, out):
    """Call forms (all positional / all keywords), zeros spelled -0.0 / 5e-324, the same objects right after a call that
    raised, and aliasing (one object passed as both arguments)."""
    import tensorly as tl
    from tensorly.metrics.factors import congruence_coefficient
    from tensorly.metrics.similarity import correlation_index
    from tensorly.cp_tensor import CPTensor
    R = c["R"]
    for form in ("pos", "kw", "negzero", "subnormal", "afterfail"):
        if form in ("negzero", "subnormal"):
            P, Q = [_zeros_as(a, form) for a in A], [_zeros_as(b, form) for b in B]
        else:
            P, Q = [a.copy() for a in A], [b.copy() for b in B]
        call = form if form in ("pos", "kw") else "std"
        # every published parameter is handed over explicitly, each flag in both values for the two call forms
        for abs_ in ((True, False) if form in ("pos", "kw") else (True,)):
            rec = {"mix": form, "abs": abs_, "form": "list", "swap": False, "raised": False, "val": QNAN, "perm": []}
            try:
                if form == "afterfail":
                    try:
                        congruence_coefficient(P, Q[:-1] if len(Q) > 1 else Q + Q)      # lists of different length: ValueError
                    except ValueError:
                        pass
                val, perm = invoke(congruence_coefficient, "congruence_coefficient", {"matrix1": P, "matrix2": Q, "absolute_value": abs_}, call)
                rec.update(val=qi(val, S6), perm=[int(x) for x in perm])
            except Exception as ex:
                rec.update(raised=True, exc=type(ex).__name__)
            out["cong"].append(rec)
        for t in ((0, 1) if form in ("pos", "kw") else (0,)):
            for m in METHODS:
                rec = {"tol": t, "dt": form, "swap": False, "method": m, "raised": False, "val": 0, "zero": False}
                try:
                    if form == "afterfail":
                        try:
                            correlation_index(P, Q, method="no_such_method")                  # documented ValueError
                        except ValueError:
                            pass
                    sc = invoke(correlation_index, "correlation_index",
                                {"factors_1": P, "factors_2": Q, "tol": 1e-5 if t else 5e-16, "method": m}, call)
                    rec.update(val=qi(sc, S6), zero=bool(sc == 0))
                except Exception as ex:
                    rec.update(raised=True, exc=type(ex).__name__)
                out["corr"].append(rec)
        if form in ("pos", "kw", "afterfail"):
            rec = {"form": "single", "ref": "A", "target": "B", "mix": form, "raised": False, "perm": [], "exact": True, "factors": [], "weights": [],
                   "eqf": False, "eqw": False, "alias": False}
            try:
                ref = CPTensor((np.ones(R), [a.copy() for a in A]))
                tgt = CPTensor((np.asarray(w, dtype=float).copy(), [b.copy() for b in B]))
                if form == "afterfail":
                    try:
                        _permute(ref, CPTensor((np.ones(R + 1), [np.ones((b.shape[0], R + 1)) for b in B])))   # rank mismatch: ValueError
                    except ValueError:
                        pass
                t, perms = _permute(ref, tgt, call)
                perm = [int(x) for x in np.asarray(perms[0]).ravel()]
                facs, exact = [], True
                for f in t.factors:
                    rows, ex = _rows(f)
                    facs.append(rows)
                    exact = exact and ex
                wd, ex = ints(t.weights)
                rec.update(alias=bool(_permute.alias[0]), perm=perm, factors=facs, weights=wd, exact=bool(exact and ex))
            except Exception as ex:
                rec.update(raised=True, exc=type(ex).__name__)
            out["permute"].append(rec)
    # aliasing: one object as both arguments
    sf = {"cong": {"abs": True, "form": "list", "swap": False, "raised": False, "val": QNAN, "perm": []}, "corr": {},
          "permute": {"form": "single", "ref": "A", "target": "A", "mix": "self", "raised": False, "perm": [], "exact": True, "factors": [],
                      "weights": [], "eqf": False, "eqw": False, "alias": False}}
    P = [a.copy() for a in A]
    try:
        val, perm = congruence_coefficient(P, P)
        sf["cong"].update(val=qi(val, S6), perm=[int(x) for x in perm])
    except Exception as ex:
        sf["cong"].update(raised=True, exc=type(ex).__name__)
    for m in METHODS:
        try:
            sf["corr"][m] = qi(correlation_index(P, P, method=m), S6)
        except Exception:
            sf["corr"][m] = QNAN
    try:
        tt = CPTensor((np.ones(R), P))
        t, perms = _permute(tt, tt)
        facs, exact = [], True
        for f in t.factors:
            rows, ex = _rows(f)
            facs.append(rows)
            exact = exact and ex
        wd, ex = ints(t.weights)
        sf["permute"].update(alias=bool(_permute.alias[0]), perm=[int(x) for x in np.asarray(perms[0]).ravel()], factors=facs, weights=wd,
                             exact=bool(exact and ex))
    except Exception as ex:
        sf["permute"].update(raised=True, exc=type(ex).__name__)
    out["self"] = sf


def exec_exact(case):
    from tensorly.cp_tensor import cp_permute_factors
    c = case["cfg"]
    R, M = c["R"], c["M"]
    A = [np.array(m, dtype=float) for m in c["A"]]
    Bint = [np.array(m, dtype=float) for m in c["B"]]
    mag = [10.0 ** np.array(e, dtype=float) for e in c["mag"]]          # per mode: one magnitude per column
    magnified = any(v != 0 for e in c["mag"] for v in e)
    B = [b * g for b, g in zip(Bint, mag)] if magnified else Bint
    if c["s"] >= 8:
        # complex factor sets: row phases on both sets, one complex scalar per column of the second set
        # (pattern 8: unit modulus).  Only correlation_index supports complex input.
        cplx = lambda t: np.array([[complex(a, b) for a, b in row] for row in t]) if t and isinstance(t[0][0], list) else np.array([complex(a, b) for a, b in t])
        Ac, Bc = [], []
        for m in range(M):
            ph = cplx(c["rph"][m])[:, None]
            z = cplx(c["cz"][m])
            if c["s"] == 8:
                z = z / np.abs(z)
            Ac.append(ph * A[m])
            Bc.append(ph * Bint[m] * z[None, :])
        return {"id": case["id"], "kind": "exact", "cfg": c, "cong": [], "permute": [], "opts": {"cong": [], "corr": [], "permute": []},
                "corr": _corr_records(Ac, Bc), "corr_swap": _corr_records(Bc, Ac)}
    w = np.array(c["w"], dtype=float)
    if magnified and c["s"] != 7:                                       # the tensor keeps its size in the weights
        # (not for pattern 7: 1e240 weights overflow inside cp_normalize on the unchanged tree -- C04's business)
        for g in mag:
            w = w / g
    ev = {"id": case["id"], "kind": "exact", "cfg": c, "cong": _cong_records(A, B, M, swaps=(False, True)),
          "corr": _corr_records(A, B), "corr_swap": _corr_records(B, A)}
    ev["opts"] = _exact_options(c, A, Bint, w) if c["s"] <= 3 else {"cong": [], "corr": [], "permute": []}
    permute = []
    srcs = {"A": (np.ones(R), A), "B": (w, B)}

    def rec(form, ref, target, fn, ai=0):
        blank = {"form": form, "ref": ref, "target": target, "raised": True, "perm": [], "exact": True, "factors": [], "weights": [],
                 "eqf": False, "eqw": False, "alias": False}
        try:
            t, perm = fn()
            perm = [int(x) for x in np.asarray(perm).ravel()]
            sw, sf = srcs[target]
            ok = len(perm) == R and all(0 <= x < R for x in perm)
            eqf = ok and all(np.array_equal(np.asarray(f), b[:, perm]) for f, b in zip(t.factors, sf))
            eqw = ok and np.array_equal(np.asarray(t.weights), sw[perm])
            facs, exact, wd = [], True, []
            if not (magnified and target == "B"):
                for f in t.factors:
                    rows, ex = _rows(f)
                    facs.append(rows)
                    exact = exact and ex
                wd, ex = ints(t.weights)
                exact = exact and ex
            permute.append({"form": form, "ref": ref, "target": target, "raised": False, "perm": perm, "exact": bool(exact),
                            "factors": facs, "weights": wd, "eqf": bool(eqf), "eqw": bool(eqw), "alias": bool(_permute.alias[ai])})
        except Exception as ex:
            blank["exc"] = type(ex).__name__
            permute.append(blank)

    def single(ref, target):
        def fn():
            t, perms = _permute(_cp(*srcs[ref]), _cp(*srcs[target]))
            return t, perms[0]
        return fn
    rec("single", "A", "B", single("A", "B"))
    rec("single", "B", "A", single("B", "A"))
    try:
        ts, perms = _permute(_cp(*srcs["A"]), [_cp(*srcs["B"]), _cp(*srcs["A"])])
        rec("list", "A", "B", lambda: (ts[0], perms[0]))
        rec("list", "A", "A", lambda: (ts[1], perms[1]), ai=1)
    except Exception as ex:
        for tg in ("B", "A"):
            permute.append({"form": "list", "ref": "A", "target": tg, "raised": True, "exc": type(ex).__name__, "perm": [], "exact": True,
                            "factors": [], "weights": [], "eqf": False, "eqw": False, "alias": False})
    ev["permute"] = permute
    return ev


def exec_zeros(case):
    """Exact zeros: a component that vanishes in one mode / in every mode, a zero row.  Every call is made in both
    argument orders; the event records whether it raised (and what) or what it returned."""
    import tensorly as tl
    from tensorly.metrics.factors import congruence_coefficient
    from tensorly.metrics.similarity import correlation_index
    from tensorly.cp_tensor import cp_permute_factors
    c = case["cfg"]
    R, M = c["R"], c["M"]
    A = [np.array(m, dtype=float) for m in c["A"]]
    B = [np.array(m, dtype=float) for m in c["B"]]
    w = np.array(c["w"], dtype=float)
    ev = {"id": case["id"], "kind": "zeros", "cfg": c, "corr": [], "cong": [], "permute": []}
    for swap in (False, True):
        P, Q = (B, A) if swap else (A, B)
        for m in METHODS:
            rec = {"method": m, "swap": swap, "raised": False, "exc": "", "val": 0}
            try:
                with np.errstate(all="ignore"):
                    rec["val"] = qi(correlation_index([tl.tensor(x.copy()) for x in P], [tl.tensor(x.copy()) for x in Q], method=m), S6)
            except Exception as ex:
                rec.update(raised=True, exc=type(ex).__name__)
            ev["corr"].append(rec)
        for abs_ in (True, False):
            for form in (["list", "bare"] if M == 1 else ["list"]):
                a = tl.tensor(P[0].copy()) if form == "bare" else [tl.tensor(x.copy()) for x in P]
                b = tl.tensor(Q[0].copy()) if form == "bare" else [tl.tensor(x.copy()) for x in Q]
                rec = {"abs": abs_, "form": form, "swap": swap, "raised": False, "exc": "", "val": 0, "perm": []}
                try:
                    with np.errstate(all="ignore"):
                        val, perm = congruence_coefficient(a, b, absolute_value=abs_)
                    rec.update(val=qi(val, S6), perm=[int(x) for x in perm])
                except Exception as ex:
                    rec.update(raised=True, exc=type(ex).__name__)
                ev["cong"].append(rec)
    srcs = {"A": (np.ones(R), A), "B": (w, B)}
    for ref, target in (("A", "B"), ("B", "A")):
        rec = {"form": "single", "ref": ref, "target": target, "raised": False, "exc": "", "perm": [], "exact": True,
               "factors": [], "weights": [], "eqf": False, "eqw": False, "alias": False}
        try:
            with np.errstate(all="ignore"):
                t, perms = _permute(_cp(*srcs[ref]), _cp(*srcs[target]))
            perm = [int(x) for x in np.asarray(perms[0]).ravel()]
            facs, exact = [], True
            for f in t.factors:
                rows, ex = _rows(f)
                facs.append(rows)
                exact = exact and ex
            wd, ex = ints(t.weights)
            rec.update(perm=perm, factors=facs, weights=wd, exact=bool(exact and ex), alias=bool(_permute.alias[0]))
        except Exception as ex:
            rec.update(raised=True, exc=type(ex).__name__)
        ev["permute"].append(rec)
    return ev


def exec_ties(case):
    """Near ties (columns at an angle of 1e-5) and exact ties (duplicate columns): which matching is returned."""
    import tensorly as tl
    from tensorly.metrics.factors import congruence_coefficient
    c = case["cfg"]
    R, M = c["R"], c["M"]
    A = [np.array(m, dtype=float) for m in c["A"]]
    B = [np.array(m, dtype=float) for m in c["B"]]
    w = np.array(c["w"], dtype=float)
    ev = {"id": case["id"], "kind": "ties", "cfg": c, "cong": [], "permute": []}
    for swap in (False, True):
        P, Q = (B, A) if swap else (A, B)
        for abs_ in ((True, False) if c["sc"] == 0 else (True,)):
            for form in (["list", "bare"] if M == 1 else ["list"]):
                a = tl.tensor(P[0].copy()) if form == "bare" else [tl.tensor(x.copy()) for x in P]
                b = tl.tensor(Q[0].copy()) if form == "bare" else [tl.tensor(x.copy()) for x in Q]
                rec = {"abs": abs_, "form": form, "swap": swap, "raised": False, "val": QNAN, "perm": []}
                try:
                    val, perm = congruence_coefficient(a, b, absolute_value=abs_)
                    rec.update(val=qi(val, S6), perm=[int(x) for x in perm])
                except Exception as ex:
                    rec.update(raised=True, exc=type(ex).__name__)
                ev["cong"].append(rec)
    srcs = {"A": (np.ones(R), A), "B": (w, B)}
    for ref, target in (("A", "B"), ("B", "A")):
        rec = {"ref": ref, "target": target, "raised": False, "perm": [], "eqf": False, "eqw": False, "alias": False}
        try:
            t, perms = _permute(_cp(*srcs[ref]), _cp(*srcs[target]))
            perm = [int(x) for x in np.asarray(perms[0]).ravel()]
            sw, sf = srcs[target]
            ok = len(perm) == R and all(0 <= x < R for x in perm)
            rec.update(perm=perm, alias=bool(_permute.alias[0]),
                       eqf=bool(ok and all(np.array_equal(np.asarray(f), b[:, perm]) for f, b in zip(t.factors, sf))),
                       eqw=bool(ok and np.array_equal(np.asarray(t.weights), sw[perm])))
        except Exception as ex:
            rec.update(raised=True, exc=type(ex).__name__)
        ev["permute"].append(rec)
    return ev


def _unit_cols(m):
    return m / np.sqrt((m * m).sum(axis=0))


def _qmat(m):
    return [[qi(v, S6) for v in row] for row in np.asarray(m)]


def draw_generic(c, seed):
    R, M, rows = c["R"], c["M"], c["rows"]
    fl = c["flavour"]
    rng = _rng(seed, 20, R, M, c["prof"], FLAVOURS.index(fl), c["k"])
    A, B = [], []
    p = rng.permutation(R)
    for m in range(M):
        n = rows[m]
        if fl == "ternary":
            a = rng.integers(-1, 2, size=(n, R)).astype(float)
            b = rng.integers(-1, 2, size=(n, R)).astype(float)
            for x in (a, b):
                for j in range(R):
                    while not x[:, j].any():
                        x[:, j] = rng.integers(-1, 2, size=n)
        else:
            a = rng.standard_normal((n, R))
            b = rng.standard_normal((n, R))
            if fl == "noisyperm":
                b = a[:, p] * rng.choice([-2.0, -1.0, 0.5, 3.0], size=R) + 0.05 * b
            elif fl == "scaled":        # exact permuted copy, magnitudes over many orders
                b = a[:, p] * rng.choice([-1e-4, 1e-3, 1e-6, -1e3, 2e-5, 1e-9], size=R)
            elif fl == "dupcol" and R >= 2:
                b[:, 1] = b[:, 0]
                a[:, R - 1] = -2.0 * a[:, 0]
        A.append(a)
        B.append(b)
    w = rng.uniform(0.5, 2.0, size=R)
    return A, B, w


def exec_generic(case):
    from tensorly.cp_tensor import cp_permute_factors
    c = case["cfg"]
    R, M = c["R"], c["M"]
    A, B, w = draw_generic(c, case["seed"])
    ev = {"id": case["id"], "kind": "generic", "cfg": c}
    # definitional measurements: cosines between the columns (numpy only)
    ev["cos"] = [_qmat(_unit_cols(a).T @ _unit_cols(b)) for a, b in zip(A, B)]
    ev["cos_stacked"] = _qmat(np.abs(_unit_cols(np.concatenate(A, 0)).T @ _unit_cols(np.concatenate(B, 0))))
    ev["cong"] = _cong_records(A, B, M)
    ev["corr"] = _corr_records(A, B)
    permute = []

    def rec(form, t, perm, ai=0):
        perm = [int(x) for x in np.asarray(perm).ravel()]
        ok = len(perm) == R and all(0 <= x < R for x in perm)
        eqf = ok and all(np.array_equal(np.asarray(f), b[:, perm]) for f, b in zip(t.factors, B))
        eqw = ok and np.array_equal(np.asarray(t.weights), w[perm])
        permute.append({"form": form, "raised": False, "perm": perm, "eqf": bool(eqf), "eqw": bool(eqw), "alias": bool(_permute.alias[ai])})
    try:
        t, perms = _permute(_cp(np.ones(R), A), _cp(w, B))
        rec("single", t, perms[0])
    except Exception as ex:
        permute.append({"form": "single", "raised": True, "exc": type(ex).__name__, "perm": [], "eqf": False, "eqw": False, "alias": False})
    try:
        ts, perms = _permute(_cp(np.ones(R), A), [_cp(w, B), _cp(w, B)])
        rec("list", ts[0], perms[0])
        rec("list", ts[1], perms[1], ai=1)
    except Exception as ex:
        permute.append({"form": "list", "raised": True, "exc": type(ex).__name__, "perm": [], "eqf": False, "eqw": False, "alias": False})
    ev["permute"] = permute
    return ev


def exec_metric(case):
    import tensorly as tl
    from tensorly.metrics import regression as reg
    c = case["cfg"]
    shape = tuple(c["shape"])
    rng = _rng(case["seed"], 21, sorted(OPFN).index(c["op"]), c["axis"] + 5, c["k"], c["off"], ["C", "F", "strided", "ro"].index(c["lay"]), *shape)
    # (call form / zero spelling / aliasing do not enter the seed: the same data as their plain counterpart would get)
    n = int(np.prod(shape))
    x = rng.integers(-3, 4, size=n)
    y = rng.integers(-3, 4, size=n)
    if c["k"] % 2 == 0:          # every other draw: prediction close to the truth
        y = np.clip(x + rng.integers(-1, 2, size=n), -3, 3)
    off = 0.0 if c["off"] == 0 else 2.0 ** c["off"]      # offset regime: exactly representable integers
    dt = np.float32 if c["dt"] == "f32" else np.float64
    if c["same"]:
        y = x
    X = layout((x.reshape(shape) + off).astype(dt), c["lay"])
    Y = layout((y.reshape(shape) + off).astype(dt), c["lay"])
    if c["val"] != "plain":
        X, Y = _zeros_as(X, c["val"]), _zeros_as(Y, c["val"])
    if c["same"]:
        Y = X                                      # one array object passed twice
    axis = None if c["axis"] == 99 else c["axis"]
    fn = getattr(reg, OPFN[c["op"]])
    try:
        with np.errstate(all="ignore"):
            if c["op"] == "R2":
                res = invoke(fn, "R2", {"X_original": X, "X_predicted": Y}, c["call"])
            elif c["op"] in ("variance", "std"):
                res = invoke(fn, c["op"], {"y": X, "axis": axis}, c["call"], npos=1)
            else:
                res = invoke(fn, c["op"], {"y_true": X, "y_pred": Y, "axis": axis}, c["call"])
        res = np.asarray(res)
        out = {"raised": False, "shape": [int(s) for s in res.shape], "vals": [qi(v, S6) for v in res.ravel()]}
    except Exception as ex:
        out = {"raised": True, "exc": type(ex).__name__, "shape": [], "vals": []}
    return {"id": case["id"], "kind": "metric", "cfg": c, "x": [int(v) for v in x], "y": [int(v) for v in y], "out": out}


OPFN = {"MSE": "MSE", "RMSE": "RMSE", "covariance": "covariance", "variance": "variance", "std": "standard_deviation",
        "correlation": "correlation", "reflective": "reflective_correlation_coefficient", "R2": "R2_score"}


def _lev_out(mat, form="std"):
    import tensorly as tl
    from tensorly.metrics import leverage_score_dist
    try:
        res = np.asarray(invoke(leverage_score_dist, "leverage_score_dist", {"matrix": tl.tensor(mat)}, form, npos=1))
        return {"raised": False, "dtype": str(res.dtype), "shape": [int(s) for s in res.shape],
                "vals": [qi(v, S8) for v in res.ravel()], "nneg": bool(np.all(res >= 0)),
                "sumdev": qi(float(np.sum(res.astype(np.float64))) - 1.0, 10**12)}
    except Exception as ex:
        return {"raised": True, "exc": type(ex).__name__, "dtype": "", "shape": [], "vals": [], "nneg": False, "sumdev": 0}


def exec_lev(case):
    c = case["cfg"]
    rows, cols, fl = c["rows"], c["cols"], c["flavour"]
    rng = _rng(case["seed"], 22, rows, cols, LEVFL.index(fl), c["k"])
    if fl == "normal":
        mat = rng.standard_normal((rows, cols))
    elif fl in ("F", "strided", "ro"):
        mat = layout(rng.standard_normal((rows, cols)), fl)
    elif fl == "f32":
        mat = rng.standard_normal((rows, cols)).astype(np.float32)
    elif fl == "lowrank":
        r = 1 if cols < 3 else 2
        mat = rng.standard_normal((rows, r)) @ rng.standard_normal((r, cols))
    else:
        mat = rng.integers(-3, 4, size=(rows, cols)).astype(float)
        mat[0, 0] = 1.0
    return {"id": case["id"], "kind": "lev", "cfg": c, "out": _lev_out(mat, c["call"])}


def exec_levexact(case):
    c = case["cfg"]
    return {"id": case["id"], "kind": "levexact", "cfg": c, "out": _lev_out(np.array(c["A"], dtype=float))}


EXEC = {"ties": exec_ties, "zeros": exec_zeros, "exact": exec_exact, "generic": exec_generic, "metric": exec_metric, "lev": exec_lev, "levexact": exec_levexact}


def execute(case):
    return EXEC[case["cfg"]["kind"]](case)


def run(chk, opts):
    thorough = chk.tier == "thorough"
    r, cfgs = chk.export_configs("Matching", "MatchingMC_thorough.cfg" if thorough else "MatchingMC_quick.cfg",
                                 keep=lambda c: c.get("kind") in EXEC)
    chk.notes["design_run"] = r.summary()
    cfgs.sort(key=lambda c: (c["kind"], str(c)))
    cases = [{"id": "C20/%s/%05d" % (c["kind"], k), "cfg": c, "seed": chk.seed} for k, c in enumerate(cfgs)]
    chk.add_cases(cases)
    events = execute_cases(execute, cases, repo=chk.repo)
    count = {}
    for c in cfgs:
        count[c["kind"]] = count.get(c["kind"], 0) + 1
    chk.notes["domain"] = count
    chk.rule = ("every configuration of Matching.tla's domain (exported from TLC's design run): %s. exact = all R! column permutations for R<=%d (the 2R "
                "dihedral ones for R=%d) x 10 rescaling patterns (4 integer, 4 with floating-point magnitudes 1e-9..1e5 on the second set, 2 complex: correlation_index only) x equivalent/different base sets x 1-3 modes, both argument roles; generic (R<=%d, all R! matchings brute-forced "
                "in TLC) / metric / lev data drawn from VERIF_SEED; distinct = distinct configurations"
                % (", ".join("%s=%d" % kv for kv in sorted(count.items())), 5 if thorough else 4, 6 if thorough else 5, 6 if thorough else 5))
    byid = {}
    for e in events:
        byid[e.get("id")] = e
        if "cfg" in e:
            chk.distinct.add(e["id"])
    for kind in ("generic", "metric", "levexact", "exact"):
        for e in events:
            if e.get("kind") == kind and len(str(e)) < 2500:
                chk.sample(e)
                break
    for rid, clause, _ in chk.validate("MatchingTrace", events):
        chk.violation(rid, clause, event=byid.get(rid))
    chk.exhaustive = len(chk.distinct) == len(cfgs) and not chk.machinery
    chk.assumptions += ["NumPy backend only",
                        "generic family: cosines between columns are measured by the harness with NumPy (normalise, dot) and logged at 1e-6",
                        "R2_score is specified as the uncentred fit 1-|P-O|^2/|O|^2 that tensorly's own tests pin down (R2(X,0)=0), not the centred coefficient of determination",
                        "metric entries whose exact denominator is 0 (constant slices) are unconstrained",
                        "correlation_index(method='stacked') is specified as invariant to one scalar per stacked column (its documented construction), not to mode-wise rescaling"]


def replay(chk, rec, opts):
    case = rec["case"]
    ev = execute(case)
    chk.sample(ev)
    for rid, clause, _ in chk.validate("MatchingTrace", [ev]):
        chk.violation(rid, clause, case=case, event=ev)
