"""C15 -- library calls never modify caller-owned inputs.

1. TLC checks Ownership.tla on a small slot universe (every schedule of calls and exits): obliged
   slots never change; witness runs show the model is not vacuous (an "as found" library violates
   the invariant, exempt slots really may change).
2. Every (entry, kind, dtype) case of the shared registry is built once and called TWICE on the same
   argument objects (a trace); before and after each call every slot of the argument graph is
   digested (by path from the caller's roots, and by the originally passed object).
3. OwnershipTrace.tla decides every exit event; it prints the changed obliged slots with the mechanism.
"""
import json

from .. import lib_entrypoints as L
from .. import lib_walk as W
from .. import tlc
from ..common import NCPU, execute_cases

NCALLS = 2


def snapshot(nodes, intern):
    return [{"p": list(p), "k": k, "d": intern(W.shallow_digest(o))} for p, k, o in nodes]


def execute(case):
    seed = case.get("seed", 0)
    e, c = L.build(case, seed)
    intern = W.Interner()
    tr = case["id"]
    events = []
    decl = [list(p) for opt, ps in e.inplace.items() if opt in ("", c.opt) for p in ps]
    for k in range(1, NCALLS + 1):
        nodes = W.walk_args(c.args, c.kwargs)
        pre = snapshot(nodes, intern)
        events.append({"id": "%s/c%d" % (tr, k), "tr": tr, "ev": "Call", "entry": e.key, "opt": c.opt,
                       "kind": case["kind"], "dtype": case["dtype"], "decl": decl, "forms": list(c.forms), "slots": pre})
        # "previous failed call": the first call of the trace is made with options that make it fail half-way
        how, val = L.invoke(c, c.first_call_overrides if k == 1 else None)
        reach = {p: o for p, kk, o in W.walk_args(c.args, c.kwargs)}
        slots = []
        for p, kk, o in nodes:
            h = intern(W.shallow_digest(o))
            if p in reach:
                d = intern(W.shallow_digest(reach[p]))
            else:
                d = -1
            slots.append({"p": list(p), "d": d, "h": h})
        events.append({"id": "%s/x%d" % (tr, k), "tr": tr, "ev": "Return" if how == "return" else "Raise", "entry": case["entry"],
                       "exc": type(val).__name__ if how == "raise" else "none", "expect": c.expect, "forms": list(c.forms), "slots": slots})
        del val
    return {"id": tr, "events": events}


def flatten(results):
    """Events of all traces in order; `id` becomes a short serial (TLC prints short tuples on one line),
    the descriptive identifier is kept in `name`."""
    evs = []
    for r in results:
        if "harness_error" in r:
            evs.append(r)
        else:
            evs += r["events"]
    n = 0
    for e in evs:
        if "ev" in e:
            n += 1
            e["name"], e["id"] = e["id"], "e%d" % n
    return evs


def report(chk, events, cases_by_id):
    by_id = {e["id"]: e for e in events if "ev" in e}
    for rid, clause, rest in chk.validate("OwnershipTrace", events, stateful=True, group_key="tr"):
        ev = by_id.get(rid, {})
        case = cases_by_id.get(ev.get("tr"))
        name = ev.get("name", rid)
        if not rest or not isinstance(rest[0], int) or ev.get("ev") == "Call":
            rec = chk.violation(name, clause, case=case, event=ev)
            rec["sig"] = {"entry": (case or {}).get("entry"), "slot": "none", "exit": ev.get("ev")}
            continue
        path = ev["slots"][rest[0] - 1]["p"]
        slot = ".".join(path)
        rec = chk.violation("%s#%s" % (name, slot), clause, case=case, event={k: v for k, v in ev.items() if k != "slots"},
                            extra={"slot": ev["slots"][rest[0] - 1]})
        rec["sig"] = {"entry": (case or {}).get("entry"), "slot": slot, "exit": ev.get("ev"), "arg": ".".join(path[:2]),
                      "slotpat": ".".join("N" if x.isdigit() else x for x in path)}


def rotate_dtypes(cases, seed):
    """Quick tier: ownership does not depend on the precision, so only the first kind of every API entry (and the
    dtype-scaled 'badcol' regimes) runs in both dtypes; every other (entry, kind) runs in ONE dtype chosen by a
    rotation over the case name and the seed (different seeds cover the other half)."""
    import zlib
    first = {name: e.kinds[0] for name, e in L.ENTRIES.items()}
    out = []
    for c in cases:
        both = ("#" not in c["entry"] and c["kind"] == first[c["entry"]]) or "~badcol" in c["kind"]
        if not both:
            pick = ("float32", "float64")[(zlib.crc32(("%s/%s" % (c["entry"], c["kind"])).encode()) + seed) % 2]
            if c["dtype"] != pick and pick in L.ENTRIES[c["entry"]].dtypes:
                continue
        out.append(c)
    return out


def run(chk, opts):
    thorough = chk.tier == "thorough"
    r = chk.design("OwnershipMC", "OwnershipMC_thorough.cfg" if thorough else "OwnershipMC_quick.cfg",
                   coverage=True, required_actions=("Call", "Exit"), timeout=1200)
    chk.notes["design_run"] = r.summary()
    w = tlc.run("OwnershipMC", "OwnershipMC_asfound.cfg", workers=4, timeout=300)
    chk.states += w.distinct
    chk.transitions += w.generated
    if "NeverExemptNeverChanges" not in w.violated:
        chk.machinery.append("witness: a library that writes anywhere no longer violates NeverExemptNeverChanges (vacuous model?)")
    w2 = tlc.run("OwnershipMC", "OwnershipMC_witness.cfg", workers=4, timeout=300)
    if "NotExemptMayChange" not in w2.violated:
        chk.machinery.append("witness: no reachable state changes an exempt slot (exemption table dead in the model?)")
    chk.notes["witness_runs"] = {"asfound_violates": w.violated, "exempt_may_change_witness": w2.violated}

    dtypes = L.ALLDT if thorough else ("float64", "float32")
    cases = L.cases(dtypes, entries=set(opts["entries"].split(",")) if "entries" in opts else None)
    if not thorough:
        cases = rotate_dtypes(cases, chk.seed)
    for c in cases:
        c["seed"] = chk.seed
    chk.add_cases(cases)
    results = execute_cases(execute, cases, repo=chk.repo, chunksize=4)
    events = flatten(results)
    if "entries" not in opts:       # full run: the spec checks that every declared argument form was exercised
        seen = sorted({f for e in events if e.get("ev") == "Call" for f in e["forms"]})
        events.append({"id": "forms", "tr": "~forms", "ev": "Forms", "forms": seen})
        chk.notes["arg_forms_exercised"] = seen
    good = [e for e in events if "ev" in e]
    chk.rule = ("every case of the entry-point registry (%d entries x argument kinds x dtypes %s = %d cases), each called %d times on "
                "the same argument objects; one trace per case; distinct = distinct (entry, kind)" % (
                    len({c["entry"] for c in cases}), "/".join(dtypes), len(cases), NCALLS))
    for c in cases:
        chk.distinct.add((c["entry"], c["kind"]))
    exits = [e for e in good if e["ev"] in ("Return", "Raise")]
    chk.notes["exits"] = {"return": sum(e["ev"] == "Return" for e in exits), "raise": sum(e["ev"] == "Raise" for e in exits)}
    chk.notes["unexpected_exit_kind"] = sorted({e["tr"] for e in exits if (e["ev"] == "Raise") != (e["expect"] == "raise")})[:40]
    chk.notes["slots_digested"] = sum(len(e["slots"]) for e in good if e["ev"] == "Call")
    exempt_seen = sorted({e["entry"] + "[" + e["opt"] + "]" for e in good if e["ev"] == "Call" and e["decl"]})
    chk.notes["exempt_rows_exercised"] = exempt_seen
    for e in good[:2]:
        chk.sample(e)
    report(chk, events, {c["id"]: c for c in cases})
    chk.exhaustive = not chk.machinery
    chk.assumptions += ["NumPy backend only", "digest = sha-256 of dtype, shape, C-order bytes (arrays) / type, length, scalar elements (containers)",
                        "random generators passed as random_state are not caller data (documented to advance)",
                        "each argument kind is exercised on tiny tensors with <= 3 outer iterations"]


def replay(chk, rec, opts):
    case = rec["case"]
    res = execute(case)
    events = flatten([res])
    for e in events[:2]:
        chk.sample(e)
    report(chk, events, {case["id"]: case})
