"""C11 -- constrained CP returns factors satisfying every requested hard constraint.

Domain = the constraint specifications enumerated by Constraints.tla (<= 2 keywords x {scalar, list,
dict} x every mode subset, orders 3 and 4; a dict carries the ORDER in which its keys were written
-- every key order for single keywords -- and per-mode parameters differ), exported from TLC's design
run, where the theorems about the documented mapping are checked.

Binding 1 ("map" events): every specification goes to the real validate_constraints (once per mode)
and to constrained_parafac (1 outer / 1 inner iteration, tiny signed tensor).
Binding 2 ("run" events): accepted specifications x data family x shape x rank x init x (outer, inner)
budgets drawn from the run domain the spec defines; the harness only *measures* the returned factors
(signs, sums, norms, counts, first differences -- the same measurements whatever the constraint).
ConstraintsTrace.tla computes the per-mode (kind, parameter) from the user's specification and decides.
"""
import itertools
import random

import numpy as np

import functools

from .. import common
from ..common import execute_cases, q

# Check.violation() shells out to `git rev-parse` per record; thousands of F-11a records would spend
# half a minute there.  Same function, memoised (request to the framework: cache it in common.py).
if not hasattr(common.repo_commit, "cache_info"):
    common.repo_commit = functools.lru_cache(maxsize=None)(common.repo_commit)

BOOL = {"non_negative", "unimodality", "normalize", "monotonicity"}
COUNT = {"hard_sparsity", "normalized_sparsity"}
RADIUS = {"simplex", "soft_sparsity"}
PENALTY = {"l1_reg", "l2_reg", "l2_square_reg", "smoothness"}
HARD = BOOL | COUNT | RADIUS
SCALE = 10**7
SAT = 2 * 10**9


# ----------------------------------------------------------------------------- published call forms (FROZEN)
# Names, order and defaults of the pinned tree, written down here on purpose (never read from the live
# signature): a parameter inserted in the middle, renamed or re-ordered must show up as a wrong call.
KIND_ORDER = ["non_negative", "l1_reg", "l2_reg", "l2_square_reg", "unimodality", "normalize", "simplex",
              "normalized_sparsity", "soft_sparsity", "smoothness", "monotonicity", "hard_sparsity"]
CP_OPTIONS = [("n_iter_max", 100), ("n_iter_max_inner", 10), ("init", "svd"), ("svd", "truncated_svd"), ("tol_outer", 1e-8),
              ("tol_inner", 1e-6), ("random_state", None), ("verbose", 0), ("return_errors", False),
              ("cvg_criterion", "abs_rec_error"), ("fixed_modes", None)] + [(k, None) for k in KIND_ORDER]
SIG = {"constrained_parafac": [("tensor", None), ("rank", None)] + CP_OPTIONS,
       "ConstrainedCP": [("rank", None)] + CP_OPTIONS,
       "validate_constraints": [(k, None) for k in KIND_ORDER] + [("n_const", 1), ("order", 0)],
       "proximal_operator": [("tensor", None)] + [(k, None) for k in KIND_ORDER] + [("n_const", 1), ("order", 0)]}


def invoke(fn, name, form, **given):
    """Call fn with `given` either entirely by published keyword or entirely positionally in the published order."""
    unknown = set(given) - {k for k, _ in SIG[name]}
    assert not unknown, unknown
    if form == "positional":
        return fn(*[given.get(k, default) for k, default in SIG[name]])
    return fn(**given)


# ----------------------------------------------------------------------------- spec -> python call
def pyvalue(kind, p):
    if kind in BOOL:
        return True
    if kind in COUNT:
        return int(p)
    if kind in RADIUS:
        return float(p)
    return p / 10.0


def falsy_value(spelling):
    return {"None": None, "False": False, "0": 0, "0.0": 0.0, "npFalse": np.False_}[spelling]


def kwargs_of(n, items):
    """The Python call of a specification; a parameter 0 is the item's falsy spelling (given, requests nothing)."""
    kw = {}
    for it in items:
        k = it["kind"]
        val = lambda p: falsy_value(it.get("falsy", "None")) if p == 0 else pyvalue(k, p)   # noqa: E731
        if it["form"] == "scalar":
            kw[k] = val(it["pars"][0])
        elif it["form"] == "list":
            lst = [None] * n
            for m, p in zip(it["modes"], it["pars"]):
                lst[m] = val(p)
            kw[k] = lst
        else:
            kw[k] = {m: val(p) for m, p in zip(it["modes"], it["pars"])}
    return kw


def effective_modes(n, it):
    if it["form"] == "scalar":
        return set(range(n)) if it["pars"][0] else set()
    return {m % n for m, p in zip(it["modes"], it["pars"]) if p}


def proj_par(kind, par):
    """Returned parameter -> the integer the spec uses (-1: None, -2: not representable)."""
    if par is None:
        return -1
    try:
        x = float(par) * (10 if kind in PENALTY else 1)
    except (TypeError, ValueError):
        return -2
    r = round(x)
    return int(r) if abs(x - r) < 1e-9 and 0 <= r < 10**6 else -2


# ----------------------------------------------------------------------------- measurements
def measure(F):
    """Definitional measurements of one factor matrix (the same whatever constraint is requested)."""
    F = np.asarray(F, dtype=np.float64)
    if F.ndim != 2:
        F = F.reshape(F.shape[0], -1)
    rows, R = F.shape
    finite = bool(np.all(np.isfinite(F)))
    if not finite:
        F = np.zeros_like(F)

    def Q(x):           # quantise, saturating beyond the 32-bit range (see Constraints.tla)
        v = q(x, SCALE, SAT)
        if isinstance(v, str):
            return -SAT if v.startswith("-") else SAT
        return v

    s = (float(np.abs(F).max()) if F.size else 0.0) or 1.0
    cols = []
    for c in range(R):
        x = F[:, c]
        cols.append({"minsign": int(np.sign(x.min())) if rows else 0, "sum": Q(x.sum()), "l1": Q(np.abs(x).sum()),
                     "l2": Q(np.sqrt((x * x).sum())), "maxabs": Q(np.abs(x).max()), "nnz": int(np.count_nonzero(x)),
                     "diffs": [Q(d / s) for d in np.diff(x)]})
    return {"rows": int(rows), "finite": finite, "nnz": int(np.count_nonzero(F)), "fro": Q(np.sqrt((F * F).sum())),
            "maxabs": Q(np.abs(F).max()), "const": bool(F.size and np.all(F == F.flat[0])), "cols": cols}


# ----------------------------------------------------------------------------- data
MAP_SHAPE = {3: (3, 4, 2), 4: (3, 2, 3, 2)}


def map_tensor(n, seed):
    return np.random.RandomState(7919 + 31 * seed + n).randint(-2, 3, size=MAP_SHAPE[n]).astype(np.float64)


def run_tensor(shape, fam, seed, scale=0, dtype="float64"):
    rng = np.random.RandomState(seed)
    t = rng.randn(*shape)
    if fam == "sparse":
        mask = rng.rand(*shape) < 0.5
        mask.flat[rng.randint(mask.size)] = True        # never the zero tensor
        t = t * mask
    elif fam == "allneg":
        t = -(np.abs(t) + 0.1)
    t = t * 2.0 ** scale
    if fam == "denorm":                 # negative zeros and subnormals mixed with ordinary values
        u = rng.rand(*shape)
        t = np.where(u < 0.2, -0.0, np.where(u < 0.4, np.sign(t) * 5e-324, t))
        if not np.any(np.abs(t) > 1e-300):
            t.flat[0] = 2.0 ** scale
    return t.astype(dtype)             # exact power of two: only the units change


# ----------------------------------------------------------------------------- execute
def exec_map(case):
    from tensorly.tenalg.proximal import validate_constraints
    from tensorly.decomposition import constrained_parafac
    n, items = case["n"], case["items"]
    vc = []
    for m in range(n):
        try:
            k, p = invoke(validate_constraints, "validate_constraints", case.get("form", "keyword"), n_const=n, order=m,
                          **kwargs_of(n, items))
            vc.append({"raised": False, "exc": "", "kind": "none" if k is None else str(k), "par": proj_par(k, p)})
        except Exception as ex:
            vc.append({"raised": True, "exc": type(ex).__name__, "kind": "none", "par": -1})
    np.random.seed(case["seed"] % (2**31))
    try:
        invoke(constrained_parafac, "constrained_parafac", case.get("form", "keyword"), tensor=map_tensor(n, case["seed"]),
               rank=2, n_iter_max=1, n_iter_max_inner=1, random_state=case["seed"], **kwargs_of(n, items))
        cp = {"raised": False, "exc": ""}
    except Exception as ex:
        cp = {"raised": True, "exc": type(ex).__name__}
    return {"id": case["id"], "op": "map", "n": n, "items": items, "form": case.get("form", "keyword"), "vc": vc, "cp": cp}


def exact_problem(shape, rank, seed, scale, dtype, loose):
    """Data that ARE a CP tensor and a start that reproduces them through an infeasible parametrisation."""
    rng = np.random.RandomState((seed + 29) % (2**31))
    G = [np.abs(rng.randn(d, rank)) + 0.1 for d in shape]
    n = len(shape)
    S = [g.copy() for g in G]
    weights = None
    variant = ["signflip", "rescale", "negweight"][rng.randint(3)]
    a, b = sorted(rng.choice(n, 2, replace=False))
    c = rng.randint(rank)
    if variant == "signflip":           # one component flipped in two modes
        S[a][:, c] *= -1
        S[b][:, c] *= -1
    elif variant == "rescale":          # scale moved between two modes (and a flip pair as well)
        S[a] *= 2.0
        S[b] *= 0.5
        S[a][:, c] *= -1
        S[b][:, c] *= -1
    else:                               # a negative weight compensated by a flipped column
        S[a][:, c] *= -1
        weights = np.ones(rank)
        weights[c] = -1.0
    from tensorly.cp_tensor import cp_to_tensor
    t = cp_to_tensor((None, G))
    if loose:                           # near-exact: 1e-4 relative, well inside tol_outer = 1e-2
        S = [f * (1 + 1e-4 * rng.randn(*f.shape)) for f in S]
    S[0] = S[0] * 2.0 ** scale
    t = (t * 2.0 ** scale).astype(dtype)
    S = [f.astype(dtype) for f in S]
    return t, ((weights.astype(dtype) if weights is not None else None), S)


def requested_on(n, items, m):
    """(kind, python value) the user's specification puts on mode m (first keyword that reaches it) -- used only
    to BUILD a start that is meant to be feasible; whether it is, is judged by the spec on the measured start."""
    for it in items:
        if it["form"] == "scalar":
            if it["pars"][0]:
                return it["kind"], pyvalue(it["kind"], it["pars"][0])
            continue
        for k, p in zip(it["modes"], it["pars"]):
            if k % n == m and p:
                return it["kind"], pyvalue(it["kind"], p)
    return None, None


def feasible_start(n, items, shape, rank, seed, dtype):
    rng = np.random.RandomState((seed + 41) % (2**31))
    factors = []
    for m, d in enumerate(shape):
        kind, par = requested_on(n, items, m)
        F = rng.randn(d, rank)
        if kind in ("non_negative", None) or kind in PENALTY:
            F = np.abs(F) + 0.05
        elif kind == "simplex":
            F = np.abs(F) + 0.05
            F = F / F.sum(axis=0) * par
        elif kind == "soft_sparsity":
            F = F / np.abs(F).sum(axis=0) * (0.75 * par)
        elif kind == "normalize":
            F = F / np.abs(F).max()
        elif kind in ("hard_sparsity", "normalized_sparsity"):
            keep = np.argsort(-np.abs(F).ravel())[: max(1, int(par))]
            G = np.zeros(F.size)
            G[keep] = F.ravel()[keep]
            F = G.reshape(F.shape)
            if kind == "normalized_sparsity":
                F = F / np.sqrt((F * F).sum())
        elif kind in ("monotonicity", "unimodality"):
            F = np.sort(F, axis=0)
        factors.append(F.astype(dtype))
    w = rng.uniform(0.5, 3.0, size=rank)
    if rng.rand() < 0.5:
        w = w * rng.choice([-1.0, 1.0], size=rank)
    return (w.astype(dtype), factors)


def problem_of(case):
    """(data, init argument, measurements of the caller's start) of one run case."""
    n, items, r = case["n"], case["items"], case["run"]
    t = run_tensor(tuple(r["shape"]), r["data"], case["seed"], r["scale"], r["dtype"])
    init = r["init"]
    if init == "feasible":
        init = feasible_start(n, items, tuple(r["shape"]), r["rank"], case["seed"], r["dtype"])
    elif init == "user":      # entrywise non-negative user start (weights None = ones)
        urng = np.random.RandomState((case["seed"] + 17) % (2**31))
        init = (None, [(np.abs(urng.randn(d, r["rank"])) + 0.05).astype(r["dtype"]) for d in r["shape"]])
    elif init == "exact":
        t, init = exact_problem(tuple(r["shape"]), r["rank"], case["seed"], r["scale"], r["dtype"], r["tol"] == "loose")
    start = []
    if not isinstance(init, str):       # the caller's start, measured BEFORE the call (copies: C15 is not our business)
        facs = list(init[1])
        if r.get("alias") and r["init"] != "exact":     # equal-sized modes share ONE array object
            for i in range(len(facs)):
                for j in range(i + 1, len(facs)):
                    if facs[j].shape == facs[i].shape:
                        facs[j] = facs[i]
        start = [measure(f) for f in facs]
        memo = {}
        init = (None if init[0] is None else init[0].copy(), [memo.setdefault(id(f), f.copy()) for f in facs])
    return t, init, start


def call_options(case, init):
    r = case["run"]
    opts = dict(n_iter_max=r["outer"], n_iter_max_inner=r["inner"], init=init, random_state=case["seed"] % (2**31),
                fixed_modes=list(r["fixed"]) if r["fixed"] else None, **kwargs_of(case["n"], case["items"]))
    if r["tol"] == "loose":
        opts["tol_outer"] = 1e-2
    opts["cvg_criterion"] = r.get("cvg", "abs_rec_error")
    opts["return_errors"] = bool(r.get("errors", False))
    return opts


def exec_run(case):
    from tensorly.decomposition import constrained_parafac, ConstrainedCP
    n, items, r = case["n"], case["items"], case["run"]
    t, init, start = problem_of(case)
    np.random.seed(case["seed"] % (2**31))
    ev = {"id": case["id"], "op": "run", "n": n, "items": items, "run": r, "raised": False, "exc": "", "factors": [], "start": start}
    try:
        opts = call_options(case, init)
        form = r.get("form", "keyword")
        if r["via"] == "class":
            cp = invoke(ConstrainedCP, "ConstrainedCP", form, rank=r["rank"], **opts).fit_transform(t)
        elif r["via"] == "class_fit":
            cp = invoke(ConstrainedCP, "ConstrainedCP", form, rank=r["rank"], **opts).fit(t).decomposition_
        else:
            cp = invoke(constrained_parafac, "constrained_parafac", form, tensor=t, rank=r["rank"], **opts)
            if opts["return_errors"]:       # documented: a pair (decomposition, list of errors)
                cp, errs = cp
                len(errs)
        ev["factors"] = [measure(f) for f in cp.factors]
    except Exception as ex:
        ev["raised"], ev["exc"] = True, type(ex).__name__
    return ev


def exec_prox(case):
    from tensorly.tenalg.proximal import proximal_operator
    n, items, r = case["n"], case["items"], case["run"]
    v = run_tensor((r["rows"], r["cols"]), r["data"], case["seed"], r["scale"], r["dtype"])
    ev = {"id": case["id"], "op": "prox", "n": n, "items": items, "run": r, "raised": False, "exc": "", "factor": {}}
    try:
        ev["factor"] = measure(invoke(proximal_operator, "proximal_operator", r.get("form", "keyword"), tensor=v, n_const=n,
                                      order=r["mode"], **kwargs_of(n, items)))
    except Exception as ex:
        ev["raised"], ev["exc"] = True, type(ex).__name__
    return ev


def exec_seq(case):
    """Members run back to back in THIS process (one pool task): state surviving a call would show."""
    built = case["members"][0]["run"].get("built") if case["members"] else None
    if built == "before_sequence":
        return {"id": case["id"], "members": exec_built_first(case)}
    if built == "reused_estimator":
        return {"id": case["id"], "members": exec_reused(case)}
    return {"id": case["id"], "members": [exec_run(m) for m in case["members"]]}


def exec_reused(case):
    """ONE estimator for the whole sequence: the caller assigns each member's options to the published attribute
    names and fits again -- also right after a member whose request was (correctly) refused with an error."""
    from tensorly.decomposition import ConstrainedCP
    est, out = None, []
    for m in case["members"]:
        n, items, r = m["n"], m["items"], m["run"]
        t, init, start = problem_of(m)
        ev = {"id": m["id"], "op": "run", "n": n, "items": items, "run": r, "raised": False, "exc": "", "factors": [], "start": start}
        np.random.seed(m["seed"] % (2**31))
        try:
            opts = call_options(m, init)
            if est is None:
                est = invoke(ConstrainedCP, "ConstrainedCP", r.get("form", "keyword"), rank=r["rank"], **opts)
            else:
                for name, default in SIG["ConstrainedCP"]:
                    setattr(est, name, r["rank"] if name == "rank" else opts.get(name, default))
            cp = est.fit(t).decomposition_ if r["via"] == "class_fit" else est.fit_transform(t)
            ev["factors"] = [measure(f) for f in cp.factors]
        except Exception as ex:
            ev["raised"], ev["exc"] = True, type(ex).__name__
        out.append(ev)
    return out


def exec_built_first(case):
    """ALL ConstrainedCP estimators of the sequence are constructed first, then fitted in case['fit_order']:
    options of one estimator must not reach another one."""
    from tensorly.decomposition import ConstrainedCP
    prepared = []
    for m in case["members"]:
        n, items, r = m["n"], m["items"], m["run"]
        t, init, start = problem_of(m)
        ev = {"id": m["id"], "op": "run", "n": n, "items": items, "run": r, "raised": False, "exc": "", "factors": [], "start": start}
        est = None
        try:
            est = invoke(ConstrainedCP, "ConstrainedCP", r.get("form", "keyword"), rank=r["rank"], **call_options(m, init))
        except Exception as ex:
            ev["raised"], ev["exc"] = True, type(ex).__name__
        prepared.append((ev, est, t, m))
    for j in case["fit_order"]:
        ev, est, t, m = prepared[j]
        if est is None:
            continue
        np.random.seed(m["seed"] % (2**31))
        try:
            cp = est.fit(t).decomposition_ if m["run"]["via"] == "class_fit" else est.fit_transform(t)
            ev["factors"] = [measure(f) for f in cp.factors]
        except Exception as ex:
            ev["raised"], ev["exc"] = True, type(ex).__name__
    return [p[0] for p in prepared]


def execute(case):
    return {"map": exec_map, "run": exec_run, "prox": exec_prox, "seq": exec_seq}[case["op"]](case)


def flatten(events):
    out = []
    for e in events:
        out.extend(e["members"]) if "members" in e else out.append(e)
    return out


def shifted(items, d):
    """The same keywords / forms / modes with every numeric parameter moved by d (booleans stay)."""
    return [dict(it, pars=[p if (it["kind"] in BOOL or p == 0) else p + d for p in it["pars"]]) for it in items]


# ----------------------------------------------------------------------------- descriptors
def describe(items, n, run=None):
    """Descriptor-level facts about the user's specification (readability of replay records only)."""
    return {"kinds": [it["kind"] for it in items], "forms": [it["form"] for it in items],
            "dict_falsy_value": any(it["form"] == "dict" and 0 in it["pars"] for it in items),
            "scale": run.get("scale", 0) if run else 0}


def has_hard_request(c):
    return any(it["kind"] in HARD and effective_modes(c["n"], it) for it in c["items"])


def n_effective(c):
    return sum(1 for it in c["items"] if effective_modes(c["n"], it))


def has_falsy(c):
    return any(p == 0 for it in c["items"] for p in it["pars"])


def extra_of(ev, extra):
    """Context for the replay record: the mode TLC named and that factor's summary."""
    mode = extra[0] if extra else -1
    out = {"mode": mode}
    if ev and ev.get("op") == "run" and isinstance(mode, int) and 0 <= mode < len(ev.get("factors", [])):
        out["factor"] = {k: v for k, v in ev["factors"][mode].items() if k != "cols"}
    return out


def run(chk, opts):
    thorough = chk.tier == "thorough"
    r, states = chk.export_configs("Constraints", "ConstraintsMC_thorough.cfg" if thorough else "ConstraintsMC_quick.cfg",
                                   keep=lambda c: c.get("op") in ("spec", "rundomain"))
    chk.notes["design_run"] = r.summary()
    specs = [c for c in states if c["op"] == "spec"]
    dom = {c["n"]: c for c in states if c["op"] == "rundomain"}
    specs.sort(key=lambda c: (c["n"], len(c["items"]), str(c["items"])))
    rng = random.Random(chk.seed)

    def setof(v):
        return sorted(v["$set"], key=str) if isinstance(v, dict) else list(v)
    # falsy-but-given values: the spec says WHERE (parameter 0), the binding draws HOW it is written
    spellings = setof(dom[3]["falsy"])
    forms = setof(dom[3]["forms"])
    for c in specs:
        for it in c["items"]:
            if any(p == 0 for p in it["pars"]):
                it["falsy"] = rng.choice([w for w in spellings if not (it["form"] == "scalar" and w == "None")])

    cases = []
    for k, c in enumerate(specs):
        d = {"id": "C11/map/%06d" % k, "op": "map", "n": c["n"], "items": c["items"], "seed": chk.seed,
             "form": forms[(k + chk.seed) % len(forms)]}
        d.update(describe(c["items"], c["n"]))
        cases.append(d)
    nmap = len(cases)

    # ---- binding 2: accepted specifications x the run domain exported by the spec
    def draw_run(n):
        """One run configuration drawn uniformly from the run domain the spec exported (ValidRun re-checks it)."""
        d = dom[n]
        while True:
            rc = dict(shape=list(rng.choice(setof(d["shapes"]))), rank=rng.choice(setof(d["ranks"])), init=rng.choice(setof(d["inits"])),
                      outer=rng.choice(setof(d["outer"])), inner=rng.choice(setof(d["inner"])), data=rng.choice(setof(d["data"])),
                      fixed=list(rng.choice(setof(d["fixed"]))), via=rng.choice(setof(d["via"])),
                      scale=rng.choice(setof(d["scales"])), dtype=rng.choice(setof(d["dtypes"])), tol=rng.choice(setof(d["tols"])), built="at_call",
                      form=rng.choice(forms), cvg=rng.choice(setof(d["cvg"])), errors=rng.random() < 0.5, alias=rng.random() < 0.3)
            if rc["dtype"] == "float32" and rc["scale"] not in (0, -30):
                continue
            return rc
    accepted = [c for c in specs if not c["rej"] and has_hard_request(c)]
    singles = [c for c in accepted if len(c["items"]) == 1 and not has_falsy(c)]
    pairs = [c for c in accepted if len(c["items"]) == 2 and not has_falsy(c)]
    offspecs = [c for c in accepted if has_falsy(c)]        # falsy-but-given keywords / entries
    per_single = int(opts.get("per_single", 0)) or (40 if thorough else 3)
    npairs = int(opts.get("pairs", 0)) or (24000 if thorough else 3000)
    picked = []
    for c in singles:
        for _ in range(per_single):
            picked.append((c, draw_run(c["n"])))
    # pairs: stratified over (kinds, forms), round-robin
    strata = {}
    for c in pairs:
        strata.setdefault((c["n"], tuple(it["kind"] for it in c["items"]), tuple(it["form"] for it in c["items"])), []).append(c)
    keys = sorted(strata)
    for key in keys:
        rng.shuffle(strata[key])
    depth = 0
    got = 0
    while got < min(npairs, len(pairs)):
        progressed = False
        for key in keys:
            if depth < len(strata[key]) and got < npairs:
                c = strata[key][depth]
                picked.append((c, draw_run(c["n"])))
                got += 1
                progressed = True
        depth += 1
        if not progressed:
            break
    noff = int(opts.get("offruns", 0)) or (12000 if thorough else 1000)
    for c in (offspecs if noff >= len(offspecs) else rng.sample(offspecs, noff)):
        picked.append((c, draw_run(c["n"])))
    for k, (c, rc) in enumerate(picked):
        d = {"id": "C11/run/%06d" % k, "op": "run", "n": c["n"], "items": c["items"], "run": rc,
             "seed": (chk.seed * 1000003 + k * 7919 + 11) % (2**31)}
        d.update(describe(c["items"], c["n"], rc))
        cases.append(d)
    # must-reject specifications through the decomposition itself: every start kind x outer budget {0, 1}
    nrejruns = int(opts.get("rejruns", 0)) or (12000 if thorough else 1500)
    rej_all = [c for c in specs if c["rej"]]
    rstrata = {}
    for c in rej_all:
        rstrata.setdefault((c["n"], tuple(it["form"] for it in c["items"])), []).append(c)
    rkeys = sorted(rstrata)
    for j in range(min(nrejruns, len(rej_all))):
        c = rng.choice(rstrata[rkeys[j % len(rkeys)]])
        rc = draw_run(c["n"])
        rc["outer"] = j // len(rkeys) % 2
        k = len(cases) - nmap
        d = {"id": "C11/run/%06d" % k, "op": "run", "n": c["n"], "items": c["items"], "run": rc,
             "seed": (chk.seed * 1000003 + k * 7919 + 11) % (2**31)}
        d.update(describe(c["items"], c["n"], rc))
        cases.append(d)
    nrun = len(cases) - nmap
    # ---- operator events: the real proximal_operator per mode, in every value regime
    nprox_per = int(opts.get("per_prox", 0)) or (4 if thorough else 1)
    for c in singles:
        req = sorted(set().union(*[effective_modes(c["n"], it) for it in c["items"] if it["kind"] in HARD]))
        for _ in range(nprox_per):
            while True:
                pr = dict(rows=rng.randint(2, 4), cols=rng.randint(1, 3), mode=rng.choice(req), data=rng.choice(setof(dom[c["n"]]["data"])),
                          scale=rng.choice(setof(dom[c["n"]]["scales"])), dtype=rng.choice(setof(dom[c["n"]]["dtypes"])),
                          form=rng.choice(forms))
                if not (pr["dtype"] == "float32" and pr["scale"] not in (0, -30)):
                    break
            k = len(cases)
            cases.append(dict({"id": "C11/prox/%06d" % k, "op": "prox", "n": c["n"], "items": c["items"], "run": pr,
                               "seed": (chk.seed * 1000003 + k * 104729 + 5) % (2**31)}, **describe(c["items"], c["n"], pr)))
    nprox = len(cases) - nmap - nrun
    # ---- sequences: same keywords / modes, different parameters, back to back in one process
    nseq = int(opts.get("seqs", 0)) or (3000 if thorough else 500)
    shifts = setof(dom[3]["shifts"])
    seqbase = [c for c in singles if len(c["items"]) == 1 and c["items"][0]["kind"] in (COUNT | RADIUS)]
    rejected = {n: [c for c in specs if c["rej"] and c["n"] == n and not any(m < 0 for it in c["items"] for m in it["modes"])]
                for n in dom}
    nmembers = 0
    for q_ in range(nseq):
        c = rng.choice(seqbase)
        rc = draw_run(c["n"])
        if q_ % 3 == 1:     # all estimators constructed first, fitted afterwards
            rc.update(via=rng.choice(["class", "class_fit"]), built="before_sequence")
        elif q_ % 3 == 2:   # one estimator object, options re-assigned before every fit
            rc.update(via=rng.choice(["class", "class_fit"]), built="reused_estimator")
        order = rng.sample(shifts, rng.choice([2, 3]))
        members = []
        if rng.random() < 0.25 and rejected[c["n"]]:      # a rejected request first: it must leave nothing behind
            members.append(rng.choice(rejected[c["n"]])["items"])
        members += [shifted(c["items"], d) for d in order]
        sid = "C11/seq/%05d" % q_
        fit_order = list(range(len(members)))
        if rng.random() < 0.5:
            fit_order.reverse()
        seqcase = {"id": sid, "op": "seq", "n": c["n"], "shifts": order, "fit_order": fit_order, "members": [
            {"id": "%s.%d" % (sid, j), "op": "run", "n": c["n"], "items": its, "run": rc,
             "seed": (chk.seed * 1000003 + q_ * 15485863 + j * 7919 + 3) % (2**31)} for j, its in enumerate(members)]}
        seqcase.update(describe(c["items"], c["n"], rc))
        cases.append(seqcase)
        for m in seqcase["members"]:
            chk.case_by_id[m["id"]] = seqcase
        nmembers += len(members)
    chk.add_cases(cases)

    events = flatten(execute_cases(execute, cases, repo=chk.repo, chunksize=64))
    nrej = sum(1 for c in specs if c["rej"])
    raised_runs = sum(1 for e in events if e.get("op") == "run" and e.get("raised"))
    numfail = sum(1 for e in events if e.get("op") == "run" and e.get("raised") and e.get("exc") == "LinAlgError")
    chk.notes.update({"specifications": len(specs), "specifications_rejected_by_spec": nrej, "map_events": nmap,
                      "run_events": nrun + nmembers, "prox_events": nprox, "sequences": nseq, "sequence_members": nmembers,
                      "accepted_with_hard_request": len(accepted),
                      "runs_raised": raised_runs, "runs_raised_numeric_failure": numfail,
                      "mapping_domain_exhaustive": True})
    chk.rule = ("binding 1: ALL %d specifications exported from TLC's design run of Constraints.tla (<=2 keywords x scalar/list/dict x every "
                "mode subset, orders 3-4; %d are Reject) through validate_constraints per mode + constrained_parafac(1,1); "
                "binding 2: %d decomposition runs = every accepted single-keyword hard specification x %d run configurations drawn from "
                "the spec's run domain (shape x rank x init{svd,random,user,exact-fit infeasible start,feasible start with non-unit weights} x tol_outer{default,1e-2} x outer{1,2,5} x inner{1,10} x data{signed,sparse,allneg} x fixed_modes{every subset of 0..n-2} x via{function,ConstrainedCP}) + %d two-keyword "
                "specifications stratified over (kinds, forms); distinct = distinct (specification, run configuration) pairs"
                "; run domain also x outer 0 x data scale 2^{0,-70,-30,40} x dtype{float64,float32}; + %d proximal_operator events per "
                "value regime; + %d sequences (%d runs) of 2-3 decompositions with the same keywords/modes and shifted parameters "
                "executed back to back in one process (half of them: all ConstrainedCP estimators constructed first, fitted afterwards); "
                "call form keyword/positional against a frozen signature table, via fit / fit_transform, reused estimator, aliased start factors, return_errors, cvg_criterion, -0.0/subnormal data, rank 5; specifications include falsy-but-given keywords and entries (False, 0, 0.0, numpy.False_, None)"
                % (len(specs), nrej, nrun, per_single, got, nprox, nseq, nmembers))
    for e in events:
        if "items" in e:
            chk.distinct.add(str((e["n"], e["items"], e.get("run"))))
    for e in (events[nmap // 3: nmap // 3 + 2] + events[nmap + 5: nmap + 7]):
        chk.sample(e)
    by_id = {e.get("id"): e for e in events}
    for rid, clause, extra in chk.validate("ConstraintsTrace", events):
        chk.violation(rid, clause, event=by_id.get(rid), extra=extra_of(by_id.get(rid), extra))
    chk.exhaustive = False      # the mapping domain is exhaustive, data / budgets are sampled
    chk.assumptions += ["NumPy backend only", "a factor of a caller's start that is returned as supplied (fixed mode; zero outer budget, all but the last mode) is obliged to stay feasible if it was supplied feasible; built-in starts are documented to be projected",
                        "inner budget >= 1 (admm(n_iter_max=0) raises before returning)",
                        "a LinAlgError raised by the linear solves carries no obligation (nothing is returned)",
                        "scope-ambiguous kinds (hard/normalised sparsity, max-normalisation, monotone direction): either documented reading accepted"]
    if nrun and raised_runs - numfail >= nrun + nmembers:
        chk.machinery.append("vacuous: every decomposition run raised")


def replay(chk, rec, opts):
    case = rec["case"]          # a sequence is replayed as a whole, in this one process
    evs = flatten([execute(case)])
    chk.sample(evs[0])
    chk.add_cases([case])
    by_id = {e["id"]: e for e in evs}
    for rid, clause, extra in chk.validate("ConstraintsTrace", evs):
        chk.violation(rid, clause, case=case, event=by_id.get(rid), extra=extra_of(by_id.get(rid), extra))
