"""C11 -- constrained CP returns factors satisfying every requested hard constraint.

Domain = the constraint specifications enumerated by Constraints.tla (<= 2 keywords x {scalar, list,
dict} x every mode subset, orders 3 and 4; a dict carries the ORDER in which its keys were written
-- every key order for single keywords -- and per-mode parameters differ), exported from TLC's design
run, where the theorems about the documented mapping are checked.

Binding 1 ("map" events): every specification goes to the real validate_constraints (once per mode)
and to constrained_parafac (1 outer / 1 inner iteration, tiny signed tensor).
Binding 2 ("run" events): accepted specifications x data family x shape x rank x init x (outer, inner)
budgets drawn from the run domain the spec defines; the harness only *measures* the returned factors
(signs, sums, norms, counts, first differences -- the same measurements whatever the constraint).
ConstraintsTrace.tla computes the per-mode (kind, parameter) from the user's specification and decides.
"""
import itertools
import random

import numpy as np

import functools

from .. import common
from ..common import execute_cases, q

# Check.violation() shells out to `git rev-parse` per record; thousands of F-11a records would spend
# half a minute there.  Same function, memoised (request to the framework: cache it in common.py).
if not hasattr(common.repo_commit, "cache_info"):
    common.repo_commit = functools.lru_cache(maxsize=None)(common.repo_commit)

BOOL = {"non_negative", "unimodality", "normalize", "monotonicity"}
COUNT = {"hard_sparsity", "normalized_sparsity"}
RADIUS = {"simplex", "soft_sparsity"}
PENALTY = {"l1_reg", "l2_reg", "l2_square_reg", "smoothness"}
HARD = BOOL | COUNT | RADIUS
SCALE = 10**7
SAT = 2 * 10**9


# ----------------------------------------------------------------------------- spec -> python call
def pyvalue(kind, p):
    if kind in BOOL:
        return True
    if kind in COUNT:
        return int(p)
    if kind in RADIUS:
        return float(p)
    return p / 10.0


def kwargs_of(n, items):
    kw = {}
    for it in items:
        k = it["kind"]
        if it["form"] == "scalar":
            kw[k] = pyvalue(k, it["pars"][0])
        elif it["form"] == "list":
            lst = [None] * n
            for m, p in zip(it["modes"], it["pars"]):
                lst[m] = pyvalue(k, p)
            kw[k] = lst
        else:
            kw[k] = {m: pyvalue(k, p) for m, p in zip(it["modes"], it["pars"])}
    return kw


def proj_par(kind, par):
    """Returned parameter -> the integer the spec uses (-1: None, -2: not representable)."""
    if par is None:
        return -1
    try:
        x = float(par) * (10 if kind in PENALTY else 1)
    except (TypeError, ValueError):
        return -2
    r = round(x)
    return int(r) if abs(x - r) < 1e-9 and 0 <= r < 10**6 else -2


# ----------------------------------------------------------------------------- measurements
def measure(F):
    """Definitional measurements of one factor matrix (the same whatever constraint is requested)."""
    F = np.asarray(F, dtype=np.float64)
    if F.ndim != 2:
        F = F.reshape(F.shape[0], -1)
    rows, R = F.shape
    finite = bool(np.all(np.isfinite(F)))
    if not finite:
        F = np.zeros_like(F)

    def Q(x):           # quantise, saturating beyond the 32-bit range (see Constraints.tla)
        v = q(x, SCALE, SAT)
        if isinstance(v, str):
            return -SAT if v.startswith("-") else SAT
        return v

    s = max(1.0, float(np.abs(F).max())) if F.size else 1.0
    cols = []
    for c in range(R):
        x = F[:, c]
        cols.append({"minsign": int(np.sign(x.min())) if rows else 0, "sum": Q(x.sum()), "l1": Q(np.abs(x).sum()),
                     "l2": Q(np.sqrt((x * x).sum())), "maxabs": Q(np.abs(x).max()), "nnz": int(np.count_nonzero(x)),
                     "diffs": [Q(d / s) for d in np.diff(x)]})
    return {"rows": int(rows), "finite": finite, "nnz": int(np.count_nonzero(F)), "fro": Q(np.sqrt((F * F).sum())),
            "maxabs": Q(np.abs(F).max()), "const": bool(F.size and np.all(F == F.flat[0])), "cols": cols}


# ----------------------------------------------------------------------------- data
MAP_SHAPE = {3: (3, 4, 2), 4: (3, 2, 3, 2)}


def map_tensor(n, seed):
    return np.random.RandomState(7919 + 31 * seed + n).randint(-2, 3, size=MAP_SHAPE[n]).astype(np.float64)


def run_tensor(shape, fam, seed):
    rng = np.random.RandomState(seed)
    t = rng.randn(*shape)
    if fam == "sparse":
        t = t * (rng.rand(*shape) < 0.5)
    elif fam == "allneg":
        t = -(np.abs(t) + 0.1)
    return t


# ----------------------------------------------------------------------------- execute
def exec_map(case):
    from tensorly.tenalg.proximal import validate_constraints
    from tensorly.decomposition import constrained_parafac
    n, items = case["n"], case["items"]
    vc = []
    for m in range(n):
        try:
            k, p = validate_constraints(n_const=n, order=m, **kwargs_of(n, items))
            vc.append({"raised": False, "exc": "", "kind": "none" if k is None else str(k), "par": proj_par(k, p)})
        except Exception as ex:
            vc.append({"raised": True, "exc": type(ex).__name__, "kind": "none", "par": -1})
    np.random.seed(case["seed"] % (2**31))
    try:
        constrained_parafac(map_tensor(n, case["seed"]), 2, n_iter_max=1, n_iter_max_inner=1, random_state=case["seed"],
                            **kwargs_of(n, items))
        cp = {"raised": False, "exc": ""}
    except Exception as ex:
        cp = {"raised": True, "exc": type(ex).__name__}
    return {"id": case["id"], "op": "map", "n": n, "items": items, "vc": vc, "cp": cp}


def exec_run(case):
    from tensorly.decomposition import constrained_parafac, ConstrainedCP
    n, items, r = case["n"], case["items"], case["run"]
    t = run_tensor(tuple(r["shape"]), r["data"], case["seed"])
    np.random.seed(case["seed"] % (2**31))      # init='random' draws from the global stream (F-16a)
    ev = {"id": case["id"], "op": "run", "n": n, "items": items, "run": r, "raised": False, "exc": "", "factors": []}
    init = r["init"]
    if init == "user":      # entrywise non-negative user start (weights None = ones)
        urng = np.random.RandomState((case["seed"] + 17) % (2**31))
        init = (None, [np.abs(urng.randn(d, r["rank"])) + 0.05 for d in r["shape"]])
    opts = dict(n_iter_max=r["outer"], n_iter_max_inner=r["inner"], init=init, random_state=case["seed"] % (2**31),
                fixed_modes=list(r["fixed"]) if r["fixed"] else None, **kwargs_of(n, items))
    try:
        if r["via"] == "class":
            cp = ConstrainedCP(r["rank"], **opts).fit_transform(t)
        else:
            cp = constrained_parafac(t, r["rank"], **opts)
        ev["factors"] = [measure(f) for f in cp.factors]
    except Exception as ex:
        ev["raised"], ev["exc"] = True, type(ex).__name__
    return ev


def execute(case):
    return exec_map(case) if case["op"] == "map" else exec_run(case)


# ----------------------------------------------------------------------------- descriptors
def describe(items, n, run=None):
    """Descriptor-level facts about the user's specification (for findings matching only)."""
    forms = [it["form"] for it in items]
    has_list = "list" in forms
    gaps = any(it["form"] == "list" and len(it["modes"]) < n for it in items)
    return {"kinds": [it["kind"] for it in items], "forms": forms, "has_list": has_list,
            # F-11a can only touch a list-valued keyword that has empty entries or comes with a second keyword
            "list_exposed": bool(has_list and (gaps or len(items) > 1)),
            # F-11b: the simplex projection turns a one-column factor into a vector
            "rank1_simplex_prox": bool(run and run["rank"] == 1 and any(it["kind"] in RADIUS for it in items))}


def has_hard_request(c):
    return any(it["kind"] in HARD and (it["form"] == "scalar" or it["modes"]) for it in c["items"])


def extra_of(ev, extra):
    """Context for the replay record / findings matching: the mode TLC named and that factor's summary."""
    mode = extra[0] if extra else -1
    out = {"mode": mode}
    if ev and ev.get("op") == "run" and isinstance(mode, int) and 0 <= mode < len(ev.get("factors", [])):
        f = ev["factors"][mode]
        out["factor"] = {k: v for k, v in f.items() if k != "cols"}
        # F-12a signature: clip(x, 0, max(x)) with max(x) < 0 returns the constant max(x)
        out["constant_negative_factor"] = bool(f["const"] and f["cols"] and f["cols"][0]["minsign"] < 0)
        # F-11c signature: the factor holds entries beyond the quantiser's range (|x| >= 200)
        out["huge_factor"] = bool(abs(f["maxabs"]) >= SAT)
    return out


def run(chk, opts):
    thorough = chk.tier == "thorough"
    r, states = chk.export_configs("Constraints", "ConstraintsMC_thorough.cfg" if thorough else "ConstraintsMC_quick.cfg",
                                   keep=lambda c: c.get("op") in ("spec", "rundomain"))
    chk.notes["design_run"] = r.summary()
    specs = [c for c in states if c["op"] == "spec"]
    dom = {c["n"]: c for c in states if c["op"] == "rundomain"}
    specs.sort(key=lambda c: (c["n"], len(c["items"]), str(c["items"])))
    rng = random.Random(chk.seed)

    cases = []
    for k, c in enumerate(specs):
        d = {"id": "C11/map/%06d" % k, "op": "map", "n": c["n"], "items": c["items"], "seed": chk.seed}
        d.update(describe(c["items"], c["n"]))
        cases.append(d)
    nmap = len(cases)

    # ---- binding 2: accepted specifications x the run domain exported by the spec
    def setof(v):
        return sorted(v["$set"], key=str) if isinstance(v, dict) else list(v)
    runcfgs = {}
    for n, d in dom.items():
        runcfgs[n] = [dict(shape=list(sh), rank=rk, init=ini, outer=o, inner=inn, data=da, fixed=list(fx), via=via)
                      for sh, rk, ini, o, inn, da, fx, via in itertools.product(
                          setof(d["shapes"]), setof(d["ranks"]), setof(d["inits"]), setof(d["outer"]), setof(d["inner"]),
                          setof(d["data"]), setof(d["fixed"]), setof(d["via"]))]
    accepted = [c for c in specs if not c["rej"] and has_hard_request(c)]
    singles = [c for c in accepted if len(c["items"]) == 1]
    pairs = [c for c in accepted if len(c["items"]) == 2]
    per_single = int(opts.get("per_single", 0)) or (72 if thorough else 6)
    npairs = int(opts.get("pairs", 0)) or (24000 if thorough else 3000)
    picked = []
    for c in singles:
        cfgs = runcfgs[c["n"]]
        for rc in (cfgs if per_single >= len(cfgs) else rng.sample(cfgs, per_single)):
            picked.append((c, rc))
    # pairs: stratified over (kinds, forms), round-robin
    strata = {}
    for c in pairs:
        strata.setdefault((c["n"], tuple(it["kind"] for it in c["items"]), tuple(it["form"] for it in c["items"])), []).append(c)
    keys = sorted(strata)
    for key in keys:
        rng.shuffle(strata[key])
    depth = 0
    got = 0
    while got < min(npairs, len(pairs)):
        progressed = False
        for key in keys:
            if depth < len(strata[key]) and got < npairs:
                c = strata[key][depth]
                picked.append((c, rng.choice(runcfgs[c["n"]])))
                got += 1
                progressed = True
        depth += 1
        if not progressed:
            break
    for k, (c, rc) in enumerate(picked):
        d = {"id": "C11/run/%06d" % k, "op": "run", "n": c["n"], "items": c["items"], "run": rc,
             "seed": (chk.seed * 1000003 + k * 7919 + 11) % (2**31)}
        d.update(describe(c["items"], c["n"], rc))
        cases.append(d)
    chk.add_cases(cases)

    events = execute_cases(execute, cases, repo=chk.repo, chunksize=64)
    nrej = sum(1 for c in specs if c["rej"])
    raised_runs = sum(1 for e in events if e.get("op") == "run" and e.get("raised"))
    numfail = sum(1 for e in events if e.get("op") == "run" and e.get("raised") and e.get("exc") == "LinAlgError")
    chk.notes.update({"specifications": len(specs), "specifications_rejected_by_spec": nrej, "map_events": nmap,
                      "run_events": len(cases) - nmap, "accepted_with_hard_request": len(accepted),
                      "runs_raised": raised_runs, "runs_raised_numeric_failure": numfail,
                      "mapping_domain_exhaustive": True})
    chk.rule = ("binding 1: ALL %d specifications exported from TLC's design run of Constraints.tla (<=2 keywords x scalar/list/dict x every "
                "mode subset, orders 3-4; %d are Reject) through validate_constraints per mode + constrained_parafac(1,1); "
                "binding 2: %d decomposition runs = every accepted single-keyword hard specification x %d run configurations drawn from "
                "the spec's run domain (shape x rank x init{svd,random,user} x outer{1,2,5} x inner{1,10} x data{signed,sparse,allneg} x fixed_modes{every subset of 0..n-2} x via{function,ConstrainedCP}) + %d two-keyword "
                "specifications stratified over (kinds, forms); distinct = distinct (specification, run configuration) pairs"
                % (len(specs), nrej, len(cases) - nmap, per_single, got))
    for e in events:
        if "items" in e:
            chk.distinct.add(str((e["n"], e["items"], e.get("run"))))
    for e in (events[nmap // 3: nmap // 3 + 2] + events[nmap + 5: nmap + 7]):
        chk.sample(e)
    by_id = {e.get("id"): e for e in events}
    for rid, clause, extra in chk.validate("ConstraintsTrace", events):
        chk.violation(rid, clause, event=by_id.get(rid), extra=extra_of(by_id.get(rid), extra))
    chk.exhaustive = False      # the mapping domain is exhaustive, data / budgets are sampled
    chk.assumptions += ["NumPy backend only", "a constraint requested on a fixed mode imposes nothing on the returned factor (documented: the initial value is not modified; C14)",
                        "inner budget >= 1 (admm(n_iter_max=0) raises before returning)",
                        "a LinAlgError raised by the linear solves carries no obligation (nothing is returned)",
                        "scope-ambiguous kinds (hard/normalised sparsity, max-normalisation, monotone direction): either documented reading accepted"]
    if raised_runs - numfail == len(cases) - nmap and len(cases) > nmap:
        chk.machinery.append("vacuous: every decomposition run raised")


def replay(chk, rec, opts):
    case = rec["case"]
    ev = execute(case)
    chk.sample(ev)
    chk.add_cases([case])
    for rid, clause, extra in chk.validate("ConstraintsTrace", [ev]):
        chk.violation(rid, clause, case=case, event=ev, extra=extra_of(ev, extra))
