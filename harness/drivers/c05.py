"""C05 -- the SVD interface returns a genuine, sign-canonical truncated SVD.

Exact tier: the generalised permutation matrices of SVDContract (enumerated by TLC's design run,
where the Eckart-Young / clamp / shape theorems are checked on the specification) are pushed through
`tensorly.tenalg.svd_interface` and the method functions for every option combination the spec
defines.  Measured tier (thorough): dense matrices up to 6x8 whose spectrum is measured with an
independent `numpy.linalg.svd`.  Python only measures (shapes, quantised S, Gram deviations, error^2,
signs, minima); SVDContractTrace.tla decides every run.
"""
import itertools
import random

import numpy as np

from ..common import execute_cases, q, repo_commit

NN_ARG = {"off": None, "nndsvda": True, "nndsvd": "nndsvd"}


def economy_callable(matrix, n_eigenvecs=None, **kwargs):
    """The `callable` method of the contract: a thin economy SVD (min(k, min_dim) components)."""
    U, S, Vt = np.linalg.svd(np.asarray(matrix), full_matrices=False)
    k = len(S) if n_eigenvecs is None else min(int(n_eigenvecs), len(S))
    return U[:, :k], S[:k], Vt[:k, :]


def matrix_of(cfg):
    if cfg["op"] == "gperm":
        A = np.zeros((cfg["m"], cfg["n"]))
        for r, c, v in zip(cfg["rows"], cfg["cols"], cfg["vals"]):
            A[r, c] = float(v)
        return A
    raise ValueError(cfg["op"])


def measured_matrix(case):
    """Dense matrices of the measured tier, rebuilt from the case descriptor (seeded)."""
    m, n, fam, rank = case["cfg"]["m"], case["cfg"]["n"], case["cfg"]["fam"], case["cfg"]["rank"]
    rng = np.random.RandomState(case["mseed"])
    mn = min(m, n)
    if fam == "integer":
        A = rng.randint(-3, 4, size=(m, n)).astype(float)
        if not A.any():
            A[0, 0] = 2.0
    elif fam == "integer_lowrank":
        A = (rng.randint(-2, 3, size=(m, rank)) @ rng.randint(-2, 3, size=(rank, n))).astype(float)
        if not A.any():
            A[0, 0] = 2.0
    else:
        Qu, _ = np.linalg.qr(rng.normal(size=(m, m)))
        Qv, _ = np.linalg.qr(rng.normal(size=(n, n)))
        if fam == "generic":
            s = np.sort(rng.uniform(0.05, 2.0, size=mn))[::-1]
        elif fam == "lowrank":
            s = np.zeros(mn)
            s[:rank] = np.sort(rng.uniform(0.2, 2.0, size=rank))[::-1]
        elif fam == "repeated":
            base = rng.uniform(0.3, 1.5, size=max(1, (mn + 1) // 2))
            s = np.sort(np.repeat(base, 2)[:mn])[::-1]
        else:
            raise ValueError(fam)
        A = (Qu[:, :mn] * s) @ Qv[:, :mn].T
        if case.get("shift"):                    # move the mean (sign of the mean matters for nndsvda)
            A = A + case["shift"] * np.abs(A).mean()
    # keep ||A||_F <= 4 so that the absolute tolerances of the spec are meaningful
    nrm = np.linalg.norm(A)
    if nrm > 4.0:
        A = A * (4.0 / nrm)
    return A


class _Routine:
    """Callable object / bound-method forms of an SVD routine."""

    def __init__(self, base):
        self.base = base

    def __call__(self, matrix, n_eigenvecs=None, **kwargs):
        return self.base(matrix, n_eigenvecs=n_eigenvecs, **kwargs)

    def run(self, matrix, n_eigenvecs=None, **kwargs):
        return self.base(matrix, n_eigenvecs=n_eigenvecs, **kwargs)


def method_argument(opt, kw):
    """The `method` argument of svd_interface in the form opt["form"] (SVDContract.Forms); may move the sketch
    options from `kw` into a functools.partial."""
    import functools
    from tensorly.tenalg import svd as tsvd
    form = opt.get("form", "lambda" if opt["method"] == "callable" else "name")
    if form == "name":
        return opt["method"]
    base = economy_callable if opt["method"] == "callable" else getattr(tsvd, opt["method"])
    if form == "libfun":
        return base
    if form == "partial":
        bound = {k: kw.pop(k) for k in ("n_oversamples", "n_iter") if k in kw}
        return functools.partial(base, **bound)
    if form == "lambda":
        return base if opt["method"] == "callable" else (lambda m, n_eigenvecs=None, **k: base(m, n_eigenvecs, **k))
    if form == "kwonly":
        def kwonly(matrix, *, n_eigenvecs=None, **options):
            return base(matrix, n_eigenvecs=n_eigenvecs, **options)
        return kwonly
    if form == "second":
        def second(matrix, full_matrices=False, n_eigenvecs=None, **options):
            return base(matrix, n_eigenvecs=n_eigenvecs, **options)
        return second
    if form == "object":
        return _Routine(base)
    if form == "bound":
        return _Routine(base).run
    raise ValueError(form)


# The published signatures of the pinned tree (frozen here on purpose: a parameter inserted in the middle of a
# signature, or renamed, must show up as a wrong result of the positional / keyword call forms).
SIGNATURES = {
    "svd_interface": ["matrix", "method", "n_eigenvecs", "flip_sign", "u_based_flip_sign", "non_negative", "mask", "n_iter_mask_imputation"],
    "truncated_svd": ["matrix", "n_eigenvecs"],
    "symeig_svd": ["matrix", "n_eigenvecs"],
    "randomized_svd": ["matrix", "n_eigenvecs", "n_oversamples", "n_iter", "random_state"],
    "svd_flip": ["U", "V", "u_based_decision"],
    "make_svd_non_negative": ["tensor", "U", "S", "V", "nntype"],
}
HOW_DEFAULT = {"cform": "mixed", "entry": "svd", "path": "interface", "retry": False}


def invoke(fn, name, values, cform, extra=None):
    """Calls fn with `values` (dict over SIGNATURES[name]; absent = leave the default) in the call form cform."""
    names = SIGNATURES[name]
    extra = dict(extra or {})
    if cform == "pos":
        last = max(k for k, nme in enumerate(names) if nme in values)
        args = [values[nme] for nme in names[:last + 1]]        # every leading parameter must be given to go positional
        return fn(*args, **extra)
    if cform == "kw":
        return fn(**{nme: values[nme] for nme in names if nme in values}, **extra)
    first = names[0]
    return fn(values[first], **{nme: values[nme] for nme in names[1:] if nme in values}, **extra)


def _module(entry):
    import tensorly as tl
    from tensorly import tenalg
    from tensorly.tenalg import svd as tsvd
    return {"svd": tsvd, "tenalg": tenalg, "tl": tl}[entry]


def nn_value(opt):
    sp = opt.get("nnspell") or {"off": "omitted", "nndsvda": "true", "nndsvd": "name"}[opt["nonneg"]]
    return {"omitted": "omit", "none": None, "false": False, "true": True, "name": opt["nonneg"]}[sp]


def _call(A, opt, seed):
    from tensorly.tenalg import svd as tsvd
    cform, entry, path = opt.get("cform", "mixed"), opt.get("entry", "svd"), opt.get("path", "interface")
    k = None if opt["k"] == 0 else opt["k"]
    sketch = {"n_oversamples": opt["over"], "n_iter": opt["niter"]} if opt["method"] == "randomized_svd" else {}
    if opt.get("retry"):                 # a previous call that failed half-way and was caught by the caller
        try:
            tsvd.svd_interface(A, method="no_such_svd", n_eigenvecs=k)
        except ValueError:
            pass
    if opt["via"] == "direct" or path == "helpers":
        name = opt["method"]
        fn = getattr(_module(entry if name == "truncated_svd" else "svd"), name)
        vals = {"matrix": A, "n_eigenvecs": k}
        if name == "randomized_svd":
            vals.update(sketch, random_state=seed)
            U, S, V = invoke(fn, name, vals, cform)
        else:
            U, S, V = invoke(fn, name, vals, cform, extra={} if cform == "pos" else {"random_state": seed})
        if opt["via"] == "direct":
            return U, S, V
        if opt["flip"] != "off":
            U, V = invoke(tsvd.svd_flip, "svd_flip", {"U": U, "V": V, "u_based_decision": opt["flip"] != "V"}, cform)
        nn = nn_value(opt)
        if opt["nonneg"] != "off":
            U, V = invoke(tsvd.make_svd_non_negative, "make_svd_non_negative", {"tensor": A, "U": U, "S": S, "V": V, "nntype": nn}, cform)
        return U, S, V
    kw = dict(sketch, random_state=seed)
    method = method_argument(opt, kw)
    vals = {"matrix": A, "method": method, "n_eigenvecs": k, "flip_sign": opt["flip"] != "off", "u_based_flip_sign": opt["flip"] != "V"}
    nn = nn_value(opt)
    if nn != "omit" or cform == "pos" and opt["mask"] == "ones":
        vals["non_negative"] = None if nn == "omit" else nn
    if opt["mask"] == "ones":
        vals["mask"] = np.ones(A.shape)
    return invoke(_module(entry).svd_interface, "svd_interface", vals, cform, extra=kw)


def qf(x, scale=10**8):
    """(int, representable) -- TLC cannot test a string for membership in Int, so non-finite / out of
    range values are exchanged as 0 with a FALSE flag."""
    v = q(x, scale)
    return (v, True) if isinstance(v, int) else (0, False)


def _decider(vecs):
    """sign of the largest-magnitude entry of each vector (rows of vecs) + tie flags."""
    signs, ties = [], []
    for v in vecs:
        a = np.abs(v)
        j = int(np.argmax(a))
        signs.append(int(np.sign(v[j])) if np.isfinite(v[j]) else 0)
        rest = np.delete(a, j)
        ties.append(bool(rest.size and (a[j] - rest.max()) < 1e-9))
    return signs, ties


def _minq(x):
    mn = np.min(x) if np.size(x) else 0.0
    v, ok = qf(mn)
    if ok and mn < 0:
        v = min(v, -1)               # the sign of the minimum is exact information: never rounded away
    return v, ok


def one_run(A, opt, seed):
    out = {"method": opt["method"], "over": opt["over"], "niter": opt["niter"], "mask": opt["mask"], "k": opt["k"], "flip": opt["flip"], "nonneg": opt["nonneg"],
           "via": opt["via"], "raised": False, "exc": "none", "shU": [], "shS": [], "shV": [], "S_q": [],
           "gU_q": 0, "gV_q": 0, "err2_q": 0, "pd_q": 0, "signs": [], "ties": [], "minU_q": 0, "minV_q": 0,
           "fin": {"S": False, "gU": False, "gV": False, "err2": False, "pd": False, "minU": False, "minV": False},
           "degenerate": False}
    fin = out["fin"]
    out["pow2"] = int(opt.get("pow2", 0))
    out["form"] = opt.get("form", "lambda" if opt["method"] == "callable" else "name")
    out["cform"], out["entry"], out["path"] = opt.get("cform", "mixed"), opt.get("entry", "svd"), opt.get("path", "interface")
    out["retry"] = bool(opt.get("retry", False))
    out["nnspell"] = opt.get("nnspell") or {"off": "omitted", "nndsvda": "true", "nndsvd": "name"}[opt["nonneg"]]
    unit = 2.0 ** out["pow2"]
    try:
        with np.errstate(all="ignore"):
            U, S, V = _call(A * unit if out["pow2"] else A, opt, seed)
    except Exception as ex:
        out["raised"], out["exc"] = True, type(ex).__name__
        return out
    U, S, V = np.asarray(U), np.asarray(S) / unit, np.asarray(V)       # exact rescaling: everything below sees the unit-scale problem
    out["shU"], out["shS"], out["shV"] = [int(x) for x in U.shape], [int(x) for x in S.shape], [int(x) for x in V.shape]
    if U.ndim != 2 or V.ndim != 2 or S.ndim != 1:
        return out
    sq = [qf(s, 10**6) for s in S]
    out["S_q"], fin["S"] = [v for v, _ in sq], all(ok for _, ok in sq)
    r = len(S)
    if U.shape[1] < r or V.shape[0] < r or U.shape[0] != A.shape[0] or V.shape[1] != A.shape[1]:
        return out
    if opt["nonneg"] == "off":
        Uo, Vo = U[:, :r], V[:r, :]
        with np.errstate(all="ignore"):
            out["gU_q"], fin["gU"] = qf(np.max(np.abs(Uo.T @ Uo - np.eye(r))) if r else 0.0)
            out["gV_q"], fin["gV"] = qf(np.max(np.abs(Vo @ Vo.T - np.eye(r))) if r else 0.0)
            P = (Uo * S) @ Vo
            out["err2_q"], fin["err2"] = qf(np.sum((A - P) ** 2), 10**6)
            if opt["flip"] != "off":
                U0, S0, V0 = (np.asarray(x) for x in _call(A, dict(opt, flip="off"), seed))
                P0 = (U0[:, :r] * S0[:r]) @ V0[:r, :] if U0.shape == U.shape and V0.shape == V.shape else np.full_like(P, np.nan)
                out["pd_q"], fin["pd"] = qf(np.max(np.abs(P - P0)) if P.size else 0.0)
                out["signs"], out["ties"] = _decider(U.T if opt["flip"] == "U" else V)
    else:
        (out["minU_q"], fin["minU"]), (out["minV_q"], fin["minV"]) = _minq(U), _minq(V)
        # diagnosis only (never read by the trace spec): does some singular pair have neither a
        # positive nor a negative rank-one part?  (the 0/0 of make_svd_non_negative, F-05b)
        try:
            U0, S0, V0 = (np.asarray(x) for x in _call(A, dict(opt, nonneg="off", nnspell=None), seed))
            for j in range(1, min(U0.shape[1], V0.shape[0])):
                x, y = U0[:, j], V0[j, :]
                mp = np.linalg.norm(np.clip(x, 0, None)) * np.linalg.norm(np.clip(y, 0, None))
                mn_ = np.linalg.norm(np.clip(x, None, 0)) * np.linalg.norm(np.clip(y, None, 0))
                if mp == 0 and mn_ == 0:
                    out["degenerate"] = True
        except Exception:
            pass
    return out


def execute(case):
    cfg = case["cfg"]
    if cfg["op"] == "gperm":
        A = matrix_of(cfg)
        ev = {"id": case["id"], "cfg": cfg, "data": [int(x) for x in A.ravel()], "full": bool(case["full"])}
    else:
        A = measured_matrix(case)
        s = np.linalg.svd(A, compute_uv=False)                  # the independent instrument
        rank = sum(1 for x in s if q(x, 10**6) > 0)              # numerical rank at the exchange quantum
        mn = min(A.shape)
        tails = [float(np.sum(s[j:] ** 2)) for j in range(mn + 1)]
        cfg = dict(cfg, rank=rank)
        ev = {"id": case["id"], "cfg": cfg, "spec_q": [qf(x, 10**6)[0] for x in s], "tail2_q": [qf(x, 10**6)[0] for x in tails],
              "negmean": bool(A.mean() < 0), "hasneg": bool((A < 0).any())}
    ev["zeros"] = case.get("zeros", "pos")
    if ev["zeros"] != "pos":
        A = np.where(A == 0, -0.0 if ev["zeros"] == "neg" else 5e-324, A)
    ev["runs"] = [one_run(A, opt, case["seed"]) for opt in case["opts"]]
    return ev


# ------------------------------------------------------------------------------------------ domain
def all_opts(m, n, options):
    """The option grid of SVDContract.AllOpts(m, n) (the trace spec's Coverage clause compares the two)."""
    out = []
    for meth in sorted(options["methods"]):
        rand = meth == "randomized_svd"
        for over in (sorted(options["overs"]) if rand else [5]):
            for niter in (sorted(options["niters"]) if rand else [2]):
                if niter != 2 and over not in (0, 5):
                    continue
                plain = niter != 2 or over not in (0, 5)
                for k in range(0, max(m, n) + 2):
                    base = {"method": meth, "over": over, "niter": niter, "mask": "off", "k": k}
                    for flip in (["off"] if plain else sorted(options["flips"])):
                        for nn in (["off"] if plain else sorted(options["nonnegs"])):
                            out.append(dict(base, flip=flip, nonneg=nn, via="interface"))
                    if meth != "callable":
                        out.append(dict(base, flip="off", nonneg="off", via="direct"))
                    if k != 0 and over == 5 and niter == 2:
                        out.append(dict(base, mask="ones", flip="off", nonneg="off", via="interface"))
                    if k in (0, 1, 2) and over == 5 and niter == 2:
                        for p2 in sorted(options["pow2s"]):
                            if p2 == 0 or (meth == "symeig_svd" and abs(p2) > 400):
                                continue
                            for via in (["interface"] if meth == "callable" else ["interface", "direct"]):
                                out.append(dict(base, flip="off", nonneg="off", via=via, pow2=p2))
    for o in out:
        o.setdefault("pow2", 0)
        o["form"] = "lambda" if o["method"] == "callable" else "name"
    # the other ways of handing the same routine to svd_interface (SVDContract.Forms)
    for meth in sorted(options["methods"]):
        for form in sorted(options["forms"]):
            if form == ("lambda" if meth == "callable" else "name") or (meth == "callable" and form in ("name", "libfun")):
                continue
            for over in ([0, 5, 10] if meth == "randomized_svd" else [5]):
                for k in (0, 1, 2):
                    out.append({"method": meth, "over": over, "niter": 2, "mask": "off", "k": k, "flip": "off", "nonneg": "off",
                                "via": "interface", "pow2": 0, "form": form})
    # ways of making the same call (SVDContract.ValidHow), rotating over the grid
    for j, o in enumerate(out):
        o["cform"] = ("mixed", "pos", "kw")[j % 3]
        o["retry"] = j % 7 == 3
        o["entry"] = "svd"
        if o["via"] == "interface" or o["method"] == "truncated_svd":
            o["entry"] = ("svd", "tenalg", "svd", "tl")[(j // 3) % 4]
        o["path"] = "helpers" if (o["via"] == "interface" and o["form"] == "name" and o["mask"] == "off" and (j // 2) % 3 == 1) else "interface"
        o["nnspell"] = {"off": ("omitted", "none", "false")[(j // 5) % 3], "nndsvda": ("true", "name")[(j // 5) % 2], "nndsvd": "name"}[o["nonneg"]]
    return out


def derived(cfg, opt):
    m, n = cfg["m"], cfg["n"]
    mx, mn = max(m, n), min(m, n)
    rank = len(cfg["vals"]) if cfg["op"] == "gperm" else cfg["rank"]
    if opt["method"] == "callable":
        ke = mn if opt["k"] == 0 else min(opt["k"], mn)
    else:
        ke = mx if opt["k"] == 0 or opt["k"] > mx else opt["k"]
    return {"rank": rank, "zero_sv_returned": bool(min(ke, mn) > rank)}


def run(chk, opts):
    thorough = chk.tier == "thorough"
    rng = random.Random(chk.seed * 7919 + 5)
    r, cfgs = chk.export_configs("SVDContract", "SVDContractMC_thorough.cfg" if thorough else "SVDContractMC_quick.cfg",
                                 keep=lambda c: c.get("op") in ("gperm", "options"))
    chk.notes["design_run"] = r.summary()
    options = [c for c in cfgs if c["op"] == "options"]
    mats = [c for c in cfgs if c["op"] == "gperm"]
    if len(options) != 1 or not mats:
        chk.machinery.append("design run of SVDContract exported no domain")
        return
    options = {k: v["$set"] for k, v in options[0].items() if k != "op"}
    mats.sort(key=lambda c: (c["m"], c["n"], len(c["vals"]), c["fam"], c["rows"], c["cols"], c["vals"]))
    # strata (shape, number of non-zeros, family); a seeded sample of every stratum gets ALL option combinations
    per = int(opts.get("per_stratum", 40 if thorough else 7))
    strata = {}
    for c in mats:
        strata.setdefault((c["m"], c["n"], len(c["vals"]), c["fam"]), []).append(c)
    cases = []
    for key in sorted(strata):
        group = strata[key]
        pick = group if len(group) <= per else rng.sample(group, per)
        for c in pick:
            cases.append({"id": "C05/x/%dx%d/%05d" % (c["m"], c["n"], len(cases)), "cfg": c, "full": True,
                          "opts": all_opts(c["m"], c["n"], options), "seed": rng.randrange(2**31),
                          "zeros": ("pos", "neg", "pos", "sub")[len(cases) % 4]})
    n_exact = len(cases)
    if thorough or opts.get("measured"):
        k = 0
        for m, n in itertools.product(range(1, 7), range(1, 9)):
            mn = min(m, n)
            fams = [("generic", mn, 0.0), ("generic", mn, 1.5), ("generic", mn, -1.5), ("integer", mn, 0.0), ("repeated", mn, 0.0)]
            for rk in range(1, mn):
                fams += [("lowrank", rk, 0.0), ("integer_lowrank", rk, 0.0)]
            fams.append(("lowrank", max(1, mn - 1), 1.0))
            for fam, rk, shift in fams:
                for rep in range(int(opts.get("reps", 2))):
                    k += 1
                    ao = all_opts(m, n, options)
                    cases.append({"id": "C05/m/%dx%d/%s/%05d" % (m, n, fam, k),
                                  "cfg": {"op": "measured", "m": m, "n": n, "fam": fam, "rank": rk}, "full": False,
                                  "shift": shift, "mseed": rng.randrange(2**31), "seed": rng.randrange(2**31), "opts": ao})
    # dense matrices whose rank is covered only because the requested oversampling is really used: every way of handing
    # randomized_svd to the interface must forward n_oversamples (2 + 10 >= 12), the other routines ride along
    for j, (m, n, fam, rk) in enumerate([(12, 14, "generic", 12), (14, 12, "generic", 12), (13, 16, "lowrank", 12), (12, 12, "integer", 12)]):
        for rep in range(int(opts.get("reps", 2))):
            ao = [o for o in all_opts(m, n, options) if o["k"] in (1, 2) and o["flip"] == "off" and o["nonneg"] == "off" and o["mask"] == "off"
                  and o["pow2"] == 0 and o["niter"] == 2 and o["via"] == "interface" and (o["method"] != "randomized_svd" or o["over"] == 10)]
            cases.append({"id": "C05/w/%dx%d/%s/%d" % (m, n, fam, rep), "cfg": {"op": "measured", "m": m, "n": n, "fam": fam, "rank": rk},
                          "full": False, "shift": 0.0, "mseed": rng.randrange(2**31), "seed": rng.randrange(2**31), "opts": ao})
    chk.add_cases(cases)
    events = execute_cases(execute, cases, repo=chk.repo, chunksize=2)
    nruns = sum(len(e.get("runs", [])) for e in events)
    chk.notes["runs"] = nruns
    chk.notes["exact_matrices"] = n_exact
    chk.notes["measured_matrices"] = len(cases) - n_exact
    chk.notes["domain_matrices"] = len(mats)
    chk.rule = ("exact tier: %d of the %d generalised permutation matrices of SVDContract (every (shape, #non-zeros, family) stratum, "
                "seeded sample of <=%d per stratum), each with ALL option combinations (method x n_eigenvecs 1..max+1,None x "
                "oversampling x n_iter x mask x flip x non_negative x via); measured tier: %d dense matrices; distinct = (shape, options) pairs"
                % (n_exact, len(mats), per, len(cases) - n_exact))
    for e in events:
        for rr in e.get("runs", []):
            chk.distinct.add((e["cfg"]["m"], e["cfg"]["n"], rr["method"], rr["over"], rr["niter"], rr["mask"], rr["pow2"], rr["form"], rr["k"], rr["flip"], rr["nonneg"], rr["via"]))
    for e in events[:1] + events[-1:]:
        if "runs" in e:
            chk.sample(dict(e, runs=e["runs"][:3]))
    by_id = {e["id"]: e for e in events if "id" in e}
    for rid, clause, rest in chk.validate("SVDContractTrace", events):
        report(chk, by_id.get(rid), chk.case_by_id.get(rid), clause, rest)
    chk.evaluations = nruns
    chk.exhaustive = False
    chk.assumptions += ["NumPy backend only", "exact tier is a seeded sample of the spec's matrix domain (all options per sampled matrix)",
                        "measured tier trusts numpy.linalg.svd as the instrument for the spectrum"]
    if thorough:
        chk.trusted.append("numpy.linalg.svd (LAPACK gesdd) as measuring instrument of the measured tier")


_COMMIT = {}


def _violation(chk, vid, clause, case, event, extra=None):
    """chk.violation without one `git rev-parse` per record (thousands of runs may fail together)."""
    if chk.repo not in _COMMIT:
        _COMMIT[chk.repo] = repo_commit(chk.repo)
    chk.violations.append({"property": chk.pid, "id": vid, "clause": clause, "case": case, "event": event, "extra": extra,
                           "tier": chk.tier, "seed": chk.seed, "repo_commit": _COMMIT[chk.repo]})


def report(chk, ev, case, clause, rest):
    ridx = int(rest[0]) if rest else 0
    if ev is None or case is None:
        chk.machinery.append("REJECT for unknown event")
        return
    if ridx == 0:
        _violation(chk, ev["id"], clause, dict(case, opts=[]), dict(ev, runs=[]))
        return
    run_ = ev["runs"][ridx - 1]
    opt = {k: run_[k] for k in ("method", "over", "niter", "mask", "k", "flip", "nonneg", "via", "pow2", "form")}
    c = dict(case, opts=[opt], full=False, run=opt, derived=derived(ev["cfg"], opt))
    c["derived"]["negmean"] = bool(ev.get("negmean", sum(ev.get("data", [0])) < 0))
    c["derived"]["hasneg"] = bool(ev.get("hasneg", min(ev.get("data", [0])) < 0))
    _violation(chk, "%s#%s-%s-%s-k%d-o%d-i%d-p%d-%s-%s-%s-%s" % (ev["id"], ridx, opt["method"], opt["form"], opt["k"], opt["over"], opt["niter"], opt["pow2"], opt["mask"], opt["flip"], opt["nonneg"], opt["via"]),
               clause, c, dict(ev, runs=[run_]), {"degenerate_pair": bool(run_.get("degenerate"))})


def replay(chk, rec, opts):
    case = rec["case"]
    ev = execute(case)
    chk.sample(ev)
    for rid, clause, rest in chk.validate("SVDContractTrace", [ev]):
        report(chk, ev, case, clause, rest)
