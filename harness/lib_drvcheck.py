"""Shared run/replay logic of the Driver-based checks (C06, C07, C08, C10)."""
import json

from . import lib_driver as L
from . import tlc
from .common import execute_cases, NCPU

WITNESS = {"C06": ["F06c", "F06d", "P2stale"], "C07": [], "C08": ["F08a"], "C10": [], "C14": []}
ALGS = {
    "C06": None,
    "C07": ["parafac", "nn_parafac_hals", "tucker", "parafac2", "tr_als", "cmtf"],
    "C08": None,
    "C10": ["nn_parafac", "nn_parafac_hals", "nn_tucker", "nn_tucker_hals", "constrained_parafac", "parafac2"],
    "C14": None,
}


def _record(cfg):
    return L.record_trace(cfg)


def design_runs(chk, prop):
    from concurrent.futures import ThreadPoolExecutor
    with ThreadPoolExecutor(max_workers=4) as ex:
        futs = {dev: ex.submit(tlc.run, "Driver", "DriverMC_%s.cfg" % dev, workers=4, timeout=600) for dev in WITNESS[prop]}
        r = chk.design("Driver", "DriverMC_spec.cfg", coverage=False, workers=8)
        chk.notes["design_run"] = r.summary()
        for dev, f in futs.items():
            w = f.result()
            chk.states += w.distinct
            chk.transitions += w.generated
            chk.notes.setdefault("witness", {})[dev] = w.violated
            if not w.violated:
                chk.machinery.append("witness run: deviation %s no longer violates an invariant of Driver.tla" % dev)


def configs_for(chk, prop):
    if prop == "C14":
        return L.warm_configs(chk.tier, chk.seed)
    cfgs = L.driver_configs(chk.tier, chk.seed, algs=ALGS.get(prop))
    if prop == "C10":
        cfgs = [c for c in cfgs if c["alg"] != "parafac2" or c.get("nn_modes") is not None] + L.nonneg_extra_configs(chk.tier, chk.seed)
    if prop == "C07":
        # (orthogonalise=True stays in: Driver.ExactBCD says it carries no monotonicity obligation, the other clauses apply)
        cfgs = [c for c in cfgs if not c.get("sparsity") and not c.get("mask") and not c.get("sampled")]
    if prop in ("C08", "C10"):
        # an arbitrary (non-orthonormal) user start is returned as supplied at budget 0: no canonical-form obligation
        cfgs = [c for c in cfgs if not c.get("raw_init")]
    if prop in ("C07", "C08"):
        # single-precision data: the tolerances of these two properties are stated for double precision only
        cfgs = [c for c in cfgs if c.get("data_dtype") != "float32"]
    return cfgs


def validate_traces(chk, prop, cfgs):
    traces = execute_cases(_record, cfgs, repo=chk.repo, chunksize=1)
    events = []
    raised = total = 0
    by_cfg = {c["id"]: c for c in cfgs}
    for tr in traces:
        if isinstance(tr, dict):
            tr = [tr]
        events += tr
        for e in tr:
            if e.get("ev") == "Prefix":
                total += 1
                raised += e.get("out") != "ok"
    chk.notes["prefix_runs"] = total
    chk.notes["prefix_runs_raised"] = raised
    for e in events:
        if e.get("ev") == "Prefix" and e.get("out") == "ok":
            chk.distinct.add((e["tr"], e["k"]))
    for e in events:
        if e.get("ev") == "Prefix" and e.get("k") == 3:
            chk.sample(e, limit=2)
        if e.get("ev") == "Config":
            chk.sample(e, limit=3)
    by_id = {e["id"]: e for e in events if "id" in e}
    rej = chk.validate("DriverTrace", events, cfg="DriverTrace_%s.cfg" % prop, stateful=True, group_key="tr")
    for rid, clause, _ in rej:
        e = by_id.get(rid, {})
        cfg = by_cfg.get(e.get("tr"))
        rec = chk.violation(rid, clause, case=cfg, event=e)
        rec["alg"] = (cfg or {}).get("alg")
        rec["k"] = e.get("k")
    return events


def objseq_part(chk, cases):
    chk.add_cases(cases)
    events = execute_cases(L.objseq_execute, cases, repo=chk.repo)
    for e in events[:2]:
        chk.sample(e, limit=6)
    by_id = {e.get("id"): e for e in events}
    for rid, clause, _ in chk.validate("DriverTrace", events, cfg="DriverTrace_C07.cfg"):
        rec = chk.violation(rid, clause, event=by_id.get(rid))
        rec["alg"] = by_id.get(rid, {}).get("kind")
    chk.notes["objective_sequences"] = len(events)


def run_driver_check(chk, prop, opts):
    design_runs(chk, prop)
    if prop == "C07" and "only" not in opts:
        objseq_part(chk, L.objseq_cases(chk.tier, chk.seed))
    cfgs = configs_for(chk, prop)
    if "only" in opts:
        cfgs = [c for c in cfgs if c["id"].startswith(opts["only"])]
    chk.add_cases(cfgs)
    validate_traces(chk, prop, cfgs)
    chk.rule = ("%d (algorithm, configuration, data) traces drawn from the seed, each = prefix runs n_iter_max=0..K of the real code "
                "(+ callback run); distinct = distinct (trace, cap) prefix runs that returned" % len(cfgs))
    chk.exhaustive = False
    chk.assumptions += ["NumPy backend, float64", "tolerances are the named constants of DriverTrace.tla",
                        "a call that raises carries no obligation (counted in coverage.prefix_runs_raised)"]


def replay_driver_check(chk, prop, rec, opts):
    cfg = rec["case"]
    if "kind" in cfg and "alg" not in cfg:
        return objseq_part(chk, [cfg])
    chk.add_cases([cfg])
    validate_traces(chk, prop, [cfg])
