"""Registry part 2: decompositions (+class wrappers), solvers, metrics, preprocessing, regression,
random, contrib (TT-cross, TTOI)."""
import numpy as np

from .lib_entrypoints import ALLDT, ARR, FLOATS, RANK, SHAPE, Call, akind, entry, form_of

IT = 3          # outer iteration cap used everywhere
INIT = ("init_tuple", "init_list", "init_obj", "init_tuple_tuple", "init_weights", "init_tview", "init_noweights")


def D():
    import tensorly.decomposition as d
    return d


def cp_init(b, k, shape=SHAPE, rank=RANK, nonneg=False):
    """User initialisation of the requested kind."""
    if k == "init_weights":
        return b.cp(shape, rank, "tuple", "nonunit", nonneg=nonneg)
    if k == "init_noweights":
        return b.cp(shape, rank, "tuple", "none", nonneg=nonneg)
    if k == "init_tview":
        return b.cp(shape, rank, "tuple", "ones", "tview", nonneg=nonneg)
    return b.cp(shape, rank, form_of(k[len("init_"):]), "ones", nonneg=nonneg)


# ----------------------------------------------------------------------------- CP family
@entry("decomposition.parafac", ARR + INIT + ("mask", "mask_init", "fixed_modes", "fixed_last", "fixed_all", "random", "normalize",
                                              "orthogonalise", "linesearch", "sparsity", "l2_reg", "callback", "errors",
                                              "randomized_svd", "rank_gt_dim", "matrix", "matrix_init", "order4", "invalid_init", "invalid_svd"), ALLDT)
def _(b, k):
    f = D().parafac
    kw = dict(n_iter_max=IT, tol=0)
    if k == "matrix":
        return Call(f, b.lowrank((4, 3), RANK), RANK, normalize_factors=True, **kw)
    if k == "matrix_init":
        return Call(f, b.lowrank((4, 3), RANK), RANK, init=b.cp((4, 3), RANK, "tuple", "nonunit"), **kw)
    if k == "order4":
        return Call(f, b.lowrank((3, 2, 2, 3), RANK), RANK, **kw)
    if k in ARR:
        return Call(f, b.lowrank(SHAPE, RANK, k), RANK, **kw)
    X = b.lowrank(SHAPE, RANK)
    if k in INIT:
        return Call(f, X, RANK, init=cp_init(b, k), **kw)
    if k == "mask":
        return Call(f, X, RANK, mask=b.mask(SHAPE), svd_mask_repeats=2, **kw)
    if k == "mask_init":
        return Call(f, X, RANK, mask=b.mask(SHAPE), init=cp_init(b, "init_tuple"), tol=1e-8, n_iter_max=IT)
    if k == "fixed_modes":
        return Call(f, X, RANK, init=cp_init(b, "init_obj"), fixed_modes=[0], **kw)
    if k == "fixed_last":
        return Call(f, X, RANK, init=cp_init(b, "init_obj"), fixed_modes=[1, 2], **kw)
    if k == "fixed_all":
        return Call(f, X, RANK, init=cp_init(b, "init_obj"), fixed_modes=[0, 1, 2], **kw)
    if k == "random":
        return Call(f, X, RANK, init="random", random_state=1, **kw)
    if k == "normalize":
        return Call(f, X, RANK, normalize_factors=True, **kw)
    if k == "orthogonalise":
        return Call(f, X, RANK, orthogonalise=True, **kw)
    if k == "linesearch":
        return Call(f, X, RANK, linesearch=True, n_iter_max=9, tol=1e-14)
    if k == "sparsity":
        return Call(f, X, RANK, sparsity=0.2, **kw)
    if k == "l2_reg":
        return Call(f, X, RANK, l2_reg=0.1, **kw)
    if k == "callback":
        return Call(f, X, RANK, callback=lambda cp, err: None, n_iter_max=IT, tol=1e-14)
    if k == "errors":
        return Call(f, X, RANK, return_errors=True, n_iter_max=IT, tol=1e-9)
    if k == "randomized_svd":
        return Call(f, X, RANK, svd="randomized_svd", random_state=2, **kw)
    if k == "rank_gt_dim":
        return Call(f, X, 3, random_state=2, **kw)
    if k == "invalid_init":
        return Call(f, X, RANK, init="bogus", **kw).raises()
    return Call(f, X, RANK, svd="bogus", **kw).raises()


@entry("decomposition.CP.fit_transform", ("fresh", "tview", "init_obj", "mask", "fixed_last"), ALLDT)
def _(b, k):
    X = b.lowrank(SHAPE, RANK, akind(k))
    kw = dict(n_iter_max=IT, tol=0)
    if k == "init_obj":
        kw["init"] = cp_init(b, k)
    if k == "mask":
        kw["mask"] = b.mask(SHAPE)
    if k == "fixed_last":
        kw.update(init=cp_init(b, "init_obj"), fixed_modes=[2])

    def fit(X, **kw):
        return D().CP(RANK, **kw).fit_transform(X)
    return Call(fit, X, **kw)


@entry("decomposition.randomised_parafac", ARR + ("init_tuple", "init_obj", "errors", "svd", "invalid"), FLOATS)
def _(b, k):
    f = D().randomised_parafac
    kw = dict(n_iter_max=IT, random_state=1, verbose=0)
    if k in ARR:
        return Call(f, b.lowrank(SHAPE, RANK, k), RANK, 6, **kw)
    X = b.lowrank(SHAPE, RANK)
    if k.startswith("init_"):
        return Call(f, X, RANK, 6, init=cp_init(b, k), **kw)
    if k == "errors":
        return Call(f, X, RANK, 6, return_errors=True, **kw)
    if k == "svd":
        return Call(f, X, RANK, 6, init="svd", **kw)
    return Call(f, X, RANK, 6, init="bogus", **kw).raises()


@entry("decomposition.RandomizedCP.fit_transform", ("fresh",), FLOATS)
def _(b, k):
    def fit(X):
        return D().RandomizedCP(RANK, 6, n_iter_max=IT, random_state=1, verbose=0).fit_transform(X)
    return Call(fit, b.lowrank(SHAPE, RANK))


@entry("decomposition.sample_khatri_rao", ("list", "tuple", "list_tview", "skip", "indices", "rows"), FLOATS,
       out=[(["1"], "int"), (["2"], "int")])
def _(b, k):
    f = D().sample_khatri_rao
    ms = b.factors(SHAPE, RANK, akind(k))
    if k == "skip":
        return Call(f, ms, 5, skip_matrix=1, random_state=1)
    if k == "indices":
        return Call(f, ms, 4, indices_list=[[0, 1, 2, 0], [1, 3, 0, 2], [0, 1, 1, 0]], random_state=1)
    if k == "rows":
        return Call(f, ms, 5, return_sampled_rows=True, random_state=1)
    return Call(f, tuple(ms) if form_of(k) == "tuple" else ms, 5, random_state=1)


@entry("decomposition.non_negative_parafac", ARR + INIT + ("mask", "fixed_modes", "fixed_last", "random", "normalize", "errors", "invalid_init"), FLOATS)
def _(b, k):
    f = D().non_negative_parafac
    kw = dict(n_iter_max=IT, tol=0)
    if k in ARR:
        return Call(f, b.lowrank(SHAPE, RANK, k, nonneg=True), RANK, **kw)
    X = b.lowrank(SHAPE, RANK, nonneg=True)
    if k in INIT:
        return Call(f, X, RANK, init=cp_init(b, k, nonneg=True), **kw)
    if k == "mask":
        return Call(f, X, RANK, mask=b.mask(SHAPE), **kw)
    if k == "fixed_modes":
        return Call(f, X, RANK, init=cp_init(b, "init_obj", nonneg=True), fixed_modes=[0], **kw)
    if k == "fixed_last":
        return Call(f, X, RANK, init=cp_init(b, "init_obj", nonneg=True), fixed_modes=[0, 2], **kw)
    if k == "random":
        return Call(f, X, RANK, init="random", random_state=1, **kw)
    if k == "normalize":
        return Call(f, X, RANK, normalize_factors=True, **kw)
    if k == "errors":
        return Call(f, X, RANK, return_errors=True, n_iter_max=IT, tol=1e-9)
    return Call(f, X, RANK, init="bogus", **kw).raises()


@entry("decomposition.CP_NN.fit_transform", ("fresh", "init_obj", "fixed_last"), FLOATS)
def _(b, k):
    kw = dict(n_iter_max=IT, tol=0)
    if k != "fresh":
        kw["init"] = cp_init(b, "init_obj", nonneg=True)
    if k == "fixed_last":
        kw["fixed_modes"] = [2]

    def fit(X, **kw):
        return D().CP_NN(RANK, **kw).fit_transform(X)
    return Call(fit, b.lowrank(SHAPE, RANK, nonneg=True), **kw)


@entry("decomposition.non_negative_parafac_hals", ARR + INIT + ("fixed_modes", "fixed_last", "sparsity_list", "sparsity_fixed", "sparsity_float",
                                                                 "nn_modes", "nn_modes_set", "nn_modes_tuple", "random", "normalize", "errors", "invalid_init"), FLOATS)
def _(b, k):
    f = D().non_negative_parafac_hals
    kw = dict(n_iter_max=IT, tol=0)
    if k in ARR:
        return Call(f, b.lowrank(SHAPE, RANK, k, nonneg=True), RANK, **kw)
    X = b.lowrank(SHAPE, RANK, nonneg=True)
    if k in INIT:
        return Call(f, X, RANK, init=cp_init(b, k, nonneg=True), **kw)
    if k == "fixed_modes":
        return Call(f, X, RANK, init=cp_init(b, "init_obj", nonneg=True), fixed_modes=[0], **kw)
    if k == "fixed_last":
        return Call(f, X, RANK, init=cp_init(b, "init_obj", nonneg=True), fixed_modes=[2], **kw)
    if k == "sparsity_list":
        return Call(f, X, RANK, sparsity_coefficients=[0.1, 0.2, 0.1], **kw)
    if k == "sparsity_fixed":
        return Call(f, X, RANK, init=cp_init(b, "init_obj", nonneg=True), sparsity_coefficients=[0.1, 0.2, 0.1], fixed_modes=[1], **kw)
    if k == "sparsity_float":
        return Call(f, X, RANK, sparsity_coefficients=0.1, **kw)
    if k == "nn_modes":
        return Call(f, X, RANK, nn_modes=[0, 1], **kw)
    if k == "nn_modes_set":
        return Call(f, X, RANK, nn_modes={0, 1, 2}, **kw)
    if k == "nn_modes_tuple":
        return Call(f, X, RANK, nn_modes=(1,), **kw)
    if k == "random":
        return Call(f, X, RANK, init="random", random_state=1, **kw)
    if k == "normalize":
        return Call(f, X, RANK, normalize_factors=True, **kw)
    if k == "errors":
        return Call(f, X, RANK, return_errors=True, n_iter_max=IT, tol=1e-9)
    return Call(f, X, RANK, init="bogus", **kw).raises()


@entry("decomposition.CP_NN_HALS.fit_transform", ("fresh", "init_obj", "sparsity_fixed"), FLOATS)
def _(b, k):
    kw = dict(n_iter_max=IT, tol=0)
    if k != "fresh":
        kw["init"] = cp_init(b, "init_obj", nonneg=True)
    if k == "sparsity_fixed":
        kw.update(sparsity_coefficients=[0.1, 0.2, 0.1], fixed_modes=[0])

    def fit(X, **kw):
        return D().CP_NN_HALS(RANK, **kw).fit_transform(X)
    return Call(fit, b.lowrank(SHAPE, RANK, nonneg=True), **kw)


CONSTR = [("non_negative", True), ("l1_reg", 0.05), ("l2_reg", 0.05), ("l2_square_reg", 0.05), ("unimodality", True),
          ("normalize", True), ("simplex", 1.0), ("normalized_sparsity", 2), ("soft_sparsity", 1.0),
          ("smoothness", 0.1), ("monotonicity", True), ("hard_sparsity", 2)]


@entry("decomposition.constrained_parafac", ARR + INIT + tuple(n for n, _ in CONSTR) + ("dict", "list", "fixed_modes", "fixed_last", "random", "errors",
                                                                                           "invalid_init", "invalid_constraints"), FLOATS)
def _(b, k):
    f = D().constrained_parafac
    kw = dict(n_iter_max=IT, n_iter_max_inner=3, tol_outer=0)
    if k in ARR:
        return Call(f, b.lowrank(SHAPE, RANK, k, nonneg=True), RANK, non_negative=True, **kw)
    X = b.lowrank(SHAPE, RANK, nonneg=True)
    if k in INIT:
        return Call(f, X, RANK, init=cp_init(b, k, nonneg=True), non_negative=True, **kw)
    c = dict(CONSTR)
    if k in c:
        return Call(f, X, RANK, **{k: c[k]}, **kw)
    if k == "dict":
        return Call(f, X, RANK, non_negative={0: True, 2: True}, l1_reg={1: 0.05}, **kw)
    if k == "list":
        return Call(f, X, RANK, l2_reg=[0.05, 0.1, 0.05], **kw)
    if k == "fixed_modes":
        return Call(f, X, RANK, init=cp_init(b, "init_obj", nonneg=True), fixed_modes=[0], non_negative=True, **kw)
    if k == "fixed_last":
        return Call(f, X, RANK, init=cp_init(b, "init_obj", nonneg=True), fixed_modes=[2], non_negative=True, **kw)
    if k == "random":
        return Call(f, X, RANK, init="random", random_state=1, non_negative=True, **kw)
    if k == "errors":
        return Call(f, X, RANK, return_errors=True, non_negative=True, n_iter_max=IT, n_iter_max_inner=3)
    if k == "invalid_init":
        return Call(f, X, RANK, init="bogus", non_negative=True, **kw).raises()
    return Call(f, X, RANK, non_negative=True, unimodality=True, **kw).raises()


@entry("decomposition.ConstrainedCP.fit_transform", ("fresh", "init_obj"), FLOATS)
def _(b, k):
    kw = dict(n_iter_max=IT, n_iter_max_inner=3, non_negative=True)
    if k == "init_obj":
        kw["init"] = cp_init(b, k, nonneg=True)

    def fit(X, **kw):
        return D().ConstrainedCP(RANK, **kw).fit_transform(X)
    return Call(fit, b.lowrank(SHAPE, RANK, nonneg=True), **kw)


@entry("decomposition.parafac_power_iteration", ARR, FLOATS)
def _(b, k):
    return Call(D().parafac_power_iteration, b.lowrank(SHAPE, RANK, k), RANK, n_repeat=2, n_iteration=2)


@entry("decomposition.power_iteration", ARR, FLOATS)
def _(b, k):
    return Call(D().power_iteration, b.lowrank(SHAPE, RANK, k), n_repeat=2, n_iteration=2)


@entry("decomposition.CPPower.fit_transform", ("fresh",), FLOATS)
def _(b, k):
    def fit(X):
        return D().CPPower(RANK, n_repeat=2, n_iteration=2).fit_transform(X)
    return Call(fit, b.lowrank(SHAPE, RANK))


def _sym(b, k):
    fs = b.raw((3, RANK))
    import tensorly as tl
    full = tl.cp_to_tensor((None, [fs, fs, fs]))
    out = b.arr((3, 3, 3), k)
    out[...] = full
    return out


@entry("decomposition.symmetric_parafac_power_iteration", ARR, FLOATS)
def _(b, k):
    return Call(D().symmetric_parafac_power_iteration, _sym(b, k), RANK, n_repeat=2, n_iteration=2)


@entry("decomposition.symmetric_power_iteration", ARR, FLOATS)
def _(b, k):
    return Call(D().symmetric_power_iteration, _sym(b, k), n_repeat=2, n_iteration=2)


@entry("decomposition.SymmetricCP.fit_transform", ("fresh",), FLOATS)
def _(b, k):
    def fit(X):
        return D().SymmetricCP(RANK, n_repeat=2, n_iteration=2).fit_transform(X)
    return Call(fit, _sym(b, "fresh"))


@entry("decomposition.coupled_matrix_tensor_3d_factorization", ARR + ("init_tuple", "init_obj", "random", "normalize", "cp_input"), FLOATS)
def _(b, k):
    f = D().coupled_matrix_tensor_3d_factorization
    kw = dict(n_iter_max=IT)
    X, Y = b.lowrank(SHAPE, RANK, akind(k)), b.arr((3, 5), akind(k))
    if k.startswith("init_"):
        return Call(f, X, Y, RANK, init=cp_init(b, k), **kw)
    if k == "random":
        np.random.seed(3)
        return Call(f, X, Y, RANK, init="random", **kw)
    if k == "normalize":
        return Call(f, X, Y, RANK, normalize_factors=True, **kw)
    if k == "cp_input":
        return Call(f, b.cp(SHAPE, RANK, "obj"), b.cp((3, 5), RANK, "obj"), RANK, **kw).raises()   # documented, unsupported on this tree
    return Call(f, X, Y, RANK, **kw)


# ----------------------------------------------------------------------------- Tucker family
TR = (2, 3, 2)          # template only: every call gets its own list(TR)


def tk_init(b, k, nonneg=False, shape=SHAPE, rank=TR):
    if k == "init_tview":
        return b.tucker(shape, rank, "tuple", "tview", nonneg)
    return b.tucker(shape, rank, form_of(k[len("init_"):]), "fresh", nonneg)


TINIT = ("init_tuple", "init_list", "init_obj", "init_tview")


@entry("decomposition.tucker", ARR + TINIT + ("rank_tuple", "rank_overlarge", "matrix", "mask", "fixed_factors", "fixed_factors_unsorted", "random", "errors", "rank_int", "invalid_fixed", "invalid_svd"), ALLDT)
def _(b, k):
    f = D().tucker
    kw = dict(n_iter_max=IT, tol=0)
    if k == "matrix":
        return Call(f, b.lowrank((4, 3), RANK), [2, 2], **kw)
    if k == "rank_tuple":
        return Call(f, b.lowrank(SHAPE, RANK), tuple(TR), **kw)
    if k == "rank_overlarge":       # larger than the tensor allows: the validated rank differs from the caller's list
        return Call(f, b.lowrank(SHAPE, RANK), [5, 6, 4], **kw)
    if k in ARR:
        return Call(f, b.lowrank(SHAPE, RANK, k), list(TR), **kw)
    X = b.lowrank(SHAPE, RANK)
    if k in TINIT:
        return Call(f, X, list(TR), init=tk_init(b, k), **kw)
    if k == "mask":
        return Call(f, X, list(TR), mask=b.mask(SHAPE), **kw)
    if k == "fixed_factors":
        return Call(f, X, list(TR), init=tk_init(b, "init_tuple"), fixed_factors=[1], **kw)
    if k == "fixed_factors_unsorted":
        return Call(f, X, list(TR), init=tk_init(b, "init_tuple"), fixed_factors=[2, 0], **kw)
    if k == "random":
        return Call(f, X, list(TR), init="random", random_state=1, **kw)
    if k == "errors":
        return Call(f, X, list(TR), return_errors=True, **kw)
    if k == "rank_int":
        return Call(f, X, 2, **kw)
    if k == "invalid_fixed":
        return Call(f, X, list(TR), fixed_factors=[1], **kw).raises()
    return Call(f, X, list(TR), svd="bogus", **kw).raises()


@entry("decomposition.partial_tucker", ARR + TINIT + ("modes", "modes_tuple", "modes_unsorted", "rank_overlarge", "mask", "random"), ALLDT)
def _(b, k):
    f = D().partial_tucker
    kw = dict(n_iter_max=IT, tol=0)
    if k in ARR:
        return Call(f, b.lowrank(SHAPE, RANK, k), list(TR), **kw)
    X = b.lowrank(SHAPE, RANK)
    if k in TINIT:
        return Call(f, X, list(TR), init=tk_init(b, k), **kw)
    if k == "modes":
        return Call(f, X, [2, 2], modes=[0, 2], **kw)
    if k == "modes_tuple":
        return Call(f, X, (2, 2), modes=(0, 2), **kw)
    if k == "modes_unsorted":
        return Call(f, X, [2, 3], modes=[2, 1], **kw)
    if k == "rank_overlarge":
        return Call(f, X, [5, 6, 4], **kw)
    if k == "mask":
        return Call(f, X, list(TR), mask=b.mask(SHAPE), svd_mask_repeats=2, **kw)
    return Call(f, X, list(TR), init="random", random_state=1, **kw)


@entry("decomposition.Tucker.fit_transform", ("fresh", "init_tuple", "mask", "rank_tuple", "rank_overlarge", "fixed_factors"), ALLDT)
def _(b, k):
    kw = dict(n_iter_max=IT, tol=0)
    if k == "init_tuple":
        kw["init"] = tk_init(b, k)
    if k == "mask":
        kw["mask"] = b.mask(SHAPE)

    def fit(X, rank, **kw):
        return D().Tucker(rank, **kw).fit_transform(X)
    if k == "rank_tuple":
        return Call(fit, b.lowrank(SHAPE, RANK), tuple(TR), **kw)
    if k == "rank_overlarge":
        return Call(fit, b.lowrank(SHAPE, RANK), [5, 6, 4], **kw)
    if k == "fixed_factors":
        return Call(fit, b.lowrank(SHAPE, RANK), list(TR), init=tk_init(b, "init_tuple"), fixed_factors=[2, 0], **kw)
    return Call(fit, b.lowrank(SHAPE, RANK), list(TR), **kw)


@entry("decomposition.non_negative_tucker", ARR + TINIT + ("random", "normalize", "errors"), FLOATS)
def _(b, k):
    f = D().non_negative_tucker
    kw = dict(n_iter_max=IT, tol=0)
    if k in ARR:
        return Call(f, b.lowrank(SHAPE, RANK, k, nonneg=True), list(TR), **kw)
    X = b.lowrank(SHAPE, RANK, nonneg=True)
    if k in TINIT:
        return Call(f, X, list(TR), init=tk_init(b, k, nonneg=True), **kw)
    if k == "random":
        return Call(f, X, list(TR), init="random", random_state=1, **kw)
    if k == "normalize":
        return Call(f, X, list(TR), normalize_factors=True, **kw)
    return Call(f, X, list(TR), return_errors=True, **kw)


@entry("decomposition.non_negative_tucker_hals", ARR + TINIT + ("fixed_modes", "fixed_last", "sparsity_list", "sparsity_fixed", "core_sparsity",
                                                                "active_set", "random", "normalize", "errors"), FLOATS)
def _(b, k):
    f = D().non_negative_tucker_hals
    kw = dict(n_iter_max=IT, tol=0)
    if k in ARR:
        return Call(f, b.lowrank(SHAPE, RANK, k, nonneg=True), list(TR), **kw)
    X = b.lowrank(SHAPE, RANK, nonneg=True)
    if k in TINIT:
        return Call(f, X, list(TR), init=tk_init(b, k, nonneg=True), **kw)
    if k == "fixed_modes":
        return Call(f, X, list(TR), init=tk_init(b, "init_tuple", nonneg=True), fixed_modes=[0], **kw)
    if k == "fixed_last":
        return Call(f, X, list(TR), init=tk_init(b, "init_tuple", nonneg=True), fixed_modes=[1, 2], **kw)
    if k == "sparsity_list":
        return Call(f, X, list(TR), sparsity_coefficients=[0.1, 0.2, 0.1], **kw)
    if k == "sparsity_fixed":
        return Call(f, X, list(TR), init=tk_init(b, "init_tuple", nonneg=True), sparsity_coefficients=[0.1, 0.2, 0.1], fixed_modes=[1], **kw)
    if k == "core_sparsity":
        return Call(f, X, list(TR), core_sparsity_coefficient=0.1, **kw)
    if k == "active_set":
        return Call(f, X, list(TR), algorithm="active_set", **kw)
    if k == "random":
        return Call(f, X, list(TR), init="random", random_state=1, **kw)
    if k == "normalize":
        return Call(f, X, list(TR), normalize_factors=True, **kw)
    return Call(f, X, list(TR), return_errors=True, **kw)


# ----------------------------------------------------------------------------- TT / TR / PARAFAC2 / robust PCA
@entry("decomposition.tensor_train", ARR + ("rank_int", "rank_tuple", "rank_overlarge", "rank_overlarge_tuple", "order4_overlarge", "invalid"), ALLDT)
def _(b, k):
    f = D().tensor_train
    if k == "rank_tuple":
        return Call(f, b.arr(SHAPE), (1, 2, 2, 1))
    if k == "rank_overlarge":
        return Call(f, b.arr(SHAPE), [1, 7, 9, 1])
    if k == "rank_overlarge_tuple":
        return Call(f, b.arr(SHAPE), (1, 7, 9, 1))
    if k == "order4_overlarge":
        return Call(f, b.arr((2, 3, 2, 2)), [1, 2, 9, 5, 1])
    if k == "rank_int":
        return Call(f, b.arr(SHAPE), 2)
    if k == "invalid":
        return Call(f, b.arr(SHAPE), [2, 2, 2, 2]).raises()
    return Call(f, b.arr(SHAPE, k), [1, 2, 2, 1])


@entry("decomposition.TensorTrain.fit_transform", ("fresh", "rank_overlarge", "rank_tuple"), ALLDT)
def _(b, k):
    def fit(X, rank):            # the estimator holds the caller's rank container
        return D().TensorTrain(rank).fit_transform(X)
    rank = {"fresh": [1, 2, 2, 1], "rank_overlarge": [1, 7, 9, 1], "rank_tuple": (1, 7, 9, 1)}[k]
    return Call(fit, b.arr(SHAPE), rank)


@entry("decomposition.tensor_train_matrix", ARR + ("rank_overlarge", "rank_tuple", "rank_int"), ALLDT)
def _(b, k):
    f = D().tensor_train_matrix
    if k == "rank_overlarge":
        return Call(f, b.arr((2, 2, 3, 2)), [1, 9, 1])
    if k == "rank_tuple":
        return Call(f, b.arr((2, 2, 3, 2)), (1, 9, 1))
    if k == "rank_int":
        return Call(f, b.arr((2, 2, 3, 2)), 2)
    return Call(f, b.arr((2, 2, 3, 2), k), [1, 2, 1])


@entry("decomposition.TensorTrainMatrix.fit_transform", ("fresh", "rank_overlarge"), ALLDT)
def _(b, k):
    def fit(X, rank):
        return D().TensorTrainMatrix(rank).fit_transform(X)
    return Call(fit, b.arr((2, 2, 3, 2)), [1, 9, 1] if k == "rank_overlarge" else [1, 2, 1])


@entry("decomposition.tensor_ring", ARR + ("mode1", "rank_tuple", "rank_overlarge", "rank_overlarge_tuple", "rank_overlarge_mode1",
                                         "rank_overlarge_mode2", "order4_overlarge", "rank_int", "invalid"), ALLDT)
def _(b, k):
    f = D().tensor_ring
    if k == "rank_tuple":
        return Call(f, b.arr((4, 3, 2)), (2, 2, 1, 2))
    if k == "rank_overlarge":       # interior ranks not attainable: the sweep truncates rank[k+1]
        return Call(f, b.arr((4, 3, 2)), [2, 2, 9, 2])
    if k == "rank_overlarge_tuple":
        return Call(f, b.arr((4, 3, 2)), (2, 2, 9, 2))
    if k == "rank_overlarge_mode1":
        return Call(f, b.arr((4, 4, 2)), [9, 2, 2, 9], mode=1)
    if k == "rank_overlarge_mode2":
        return Call(f, b.arr((2, 3, 4)), [2, 9, 2, 2], mode=2)
    if k == "order4_overlarge":
        return Call(f, b.arr((4, 2, 3, 2)), [2, 2, 5, 9, 2])
    if k == "rank_int":
        return Call(f, b.arr((4, 3, 2)), 2)
    if k == "mode1":
        return Call(f, b.arr((4, 3, 2)), [2, 1, 2, 2], mode=1)
    if k == "invalid":
        return Call(f, b.arr((4, 3, 2)), [2, 2, 2, 3]).raises()
    return Call(f, b.arr((4, 3, 2), k), [2, 2, 1, 2])


@entry("decomposition.TensorRing.fit_transform", ("fresh", "rank_overlarge", "rank_overlarge_mode1"), ALLDT)
def _(b, k):
    def fit(X, rank, mode=0):
        return D().TensorRing(rank, mode=mode).fit_transform(X)
    if k == "rank_overlarge":
        return Call(fit, b.arr((4, 3, 2)), [2, 2, 9, 2])
    if k == "rank_overlarge_mode1":
        return Call(fit, b.arr((4, 4, 2)), [9, 2, 2, 9], mode=1)
    return Call(fit, b.arr((4, 3, 2)), [2, 2, 1, 2])


@entry("decomposition.tensor_ring_als", ARR + ("normal_eq", "callback", "rank_tuple", "estimator"), FLOATS)
def _(b, k):
    f = D().tensor_ring_als
    kw = dict(n_iter_max=IT, random_state=1)
    if k == "normal_eq":
        return Call(f, b.arr(SHAPE), [2, 2, 2, 2], ls_solve="normal_eq", **kw)
    if k == "callback":
        return Call(f, b.arr(SHAPE), [2, 2, 2, 2], callback=lambda *a: None, **kw)
    if k == "rank_tuple":
        return Call(f, b.arr(SHAPE), (2, 2, 2, 2), **kw)
    if k == "estimator":
        def fit(X, rank):
            return D().TensorRingALS(rank, n_iter_max=IT, random_state=1).fit_transform(X)
        return Call(fit, b.arr(SHAPE), [2, 2, 2, 2])
    return Call(f, b.arr(SHAPE, k), [2, 2, 2, 2], **kw)


@entry("decomposition.tensor_ring_als_sampled", ARR + ("uniform", "randomized_error", "n_samples_list", "n_samples_tuple", "estimator"), FLOATS)
def _(b, k):
    f = D().tensor_ring_als_sampled
    kw = dict(n_iter_max=IT, random_state=1)
    if k == "uniform":
        return Call(f, b.arr(SHAPE), [2, 2, 2, 2], 6, uniform_sampling=True, **kw)
    if k == "randomized_error":
        return Call(f, b.arr(SHAPE), [2, 2, 2, 2], 6, randomized_error=True, callback=lambda *a: None, **kw)
    if k == "n_samples_list":
        return Call(f, b.arr(SHAPE), [2, 2, 2, 2], [6, 5, 7], **kw)
    if k == "n_samples_tuple":
        return Call(f, b.arr(SHAPE), (2, 2, 2, 2), (6, 5, 7), **kw)
    if k == "estimator":
        def fit(X, rank, n_samples):
            return D().TensorRingALSSampled(rank, n_samples, n_iter_max=IT, random_state=1).fit_transform(X)
        return Call(fit, b.arr(SHAPE), [2, 2, 2, 2], [6, 5, 7])
    return Call(f, b.arr(SHAPE, k), [2, 2, 2, 2], 6, **kw)


def slices(b, form="list", kind="fresh", nonneg=False, ragged=True):
    sl = [b.arr((4 + (i % 2 if ragged else 0), 3), kind, nonneg) for i in range(3)]
    if form == "tuple":
        return tuple(sl)
    if form == "tensor":
        return np.ascontiguousarray(np.stack([np.asarray(s) for s in sl]))
    return sl


@entry("decomposition.parafac2", ("list", "tuple", "tensor", "list_tview", "list_sview", "svd", "init_cp", "init_cp_weights", "init_p2", "init_p2_obj", "init_p2_weights",
                                  "nn_modes", "nn_modes_all", "nn_modes_tuple", "normalize", "linesearch", "errors", "invalid_init"), FLOATS)
def _(b, k):
    f = D().parafac2
    kw = dict(n_iter_max=IT, tol=0, random_state=1, n_iter_parafac=2, linesearch=False)
    if k in ("list", "tuple", "list_tview", "list_sview"):
        return Call(f, slices(b, form_of(k), akind(k)), RANK, **kw)
    if k == "tensor":
        return Call(f, slices(b, "tensor", ragged=False), RANK, **kw)
    sl = slices(b, ragged=False)
    if k == "svd":
        return Call(f, sl, RANK, init="svd", **kw)
    if k == "init_cp":
        return Call(f, sl, RANK, init=b.cp((3, 4, 3), RANK, "tuple"), **kw)
    if k == "init_cp_weights":
        return Call(f, sl, RANK, init=b.cp((3, 4, 3), RANK, "obj", "nonunit"), **kw)
    if k in ("init_p2", "init_p2_obj", "init_p2_weights"):
        from tensorly.parafac2_tensor import Parafac2Tensor
        w = np.ones(RANK, dtype=b.dtype) if k != "init_p2_weights" else (np.arange(RANK) + 2).astype(b.dtype)
        A, Bm, C = b.raw((3, RANK)), b.raw((RANK, RANK)), b.raw((3, RANK))
        projs = [np.linalg.qr(b.raw((4, RANK)))[0].astype(b.dtype) for _ in range(3)]
        init = (w, [A, Bm, C], projs)
        return Call(f, sl, RANK, init=Parafac2Tensor(init) if k.endswith("obj") else init, **kw)
    if k == "nn_modes":
        return Call(f, slices(b, nonneg=True, ragged=False), RANK, nn_modes=[0, 2], **kw)
    if k == "nn_modes_all":
        return Call(f, slices(b, nonneg=True, ragged=False), RANK, nn_modes="all", **kw)
    if k == "nn_modes_tuple":
        return Call(f, slices(b, nonneg=True, ragged=False), RANK, nn_modes=(2,), **kw)
    if k == "normalize":
        return Call(f, sl, RANK, normalize_factors=True, **kw)
    if k == "linesearch":
        kw.update(linesearch=True, n_iter_max=9, tol=1e-14)
        return Call(f, sl, RANK, **kw)
    if k == "errors":
        return Call(f, sl, RANK, return_errors=True, **kw)
    return Call(f, sl, RANK, init="bogus", **kw).raises()


@entry("decomposition.Parafac2.fit_transform", ("list",), FLOATS)
def _(b, k):
    def fit(sl):
        return D().Parafac2(RANK, n_iter_max=IT, tol=0, random_state=1, n_iter_parafac=2, return_errors=True).fit_transform(sl)
    return Call(fit, slices(b))


@entry("decomposition.robust_pca", ARR + ("mask", "errors", "matrix", "mask_bool"), FLOATS)
def _(b, k):
    f = D().robust_pca
    kw = dict(n_iter_max=IT, verbose=0)
    if k == "mask":
        return Call(f, b.arr(SHAPE), mask=b.mask(SHAPE), **kw)
    if k == "errors":
        return Call(f, b.arr(SHAPE), return_errors=True, **kw)
    if k == "matrix":
        return Call(f, b.arr((4, 3)), **kw)
    if k == "mask_bool":
        return Call(f, b.arr(SHAPE), mask=b.mask(SHAPE, "bool"), **kw)
    return Call(f, b.arr(SHAPE, k), **kw)


# ----------------------------------------------------------------------------- contrib
@entry("contrib.tensor_train_cross", ARR, FLOATS)
def _(b, k):
    from tensorly.contrib.decomposition import tensor_train_cross
    X = b.arr((4, 4, 4), k)
    X[...] = np.arange(64).reshape(4, 4, 4) / 10.0 + b.rng.random_sample((4, 4, 4))
    return Call(tensor_train_cross, X, [1, 2, 2, 1], tol=1e-3, n_iter_max=3, random_state=1)


@entry("contrib.tensor_train_OI", ARR + ("last_only", "no_errors"), FLOATS)
def _(b, k):
    from tensorly.contrib.decomposition import tensor_train_OI
    if k == "last_only":       # raises UnboundLocalError on the current tree (not a C15/C18 matter)
        return Call(tensor_train_OI, b.arr(SHAPE), (1, 2, 2, 1), n_iter=2, trajectory=False).raises()
    if k == "no_errors":
        return Call(tensor_train_OI, b.arr(SHAPE), (1, 2, 2, 1), n_iter=2, trajectory=True, return_errors=False)
    return Call(tensor_train_OI, b.arr(SHAPE, k), (1, 2, 2, 1), n_iter=2, trajectory=True)


# ----------------------------------------------------------------------------- solvers
def nnls_problem(b, k, cols=3, mixed=False):
    """Pre-computed (UtM, UtU); mixed=True: mixed-sign right-hand sides, so that unconstrained
    solutions have negative entries and the solvers go through their clipping / back-tracking paths."""
    U = b.arr((5, 3), "fresh", nonneg=not mixed)
    M = b.arr((5, cols), "fresh", nonneg=not mixed)
    UtM = b.arr((3, cols), akind(k), nonneg=True)
    UtM[...] = U.T @ M
    UtU = b.arr((3, 3), akind(k), nonneg=True)
    UtU[...] = U.T @ U
    return UtM, UtU


@entry("solvers.hals_nnls", ARR + ("V_fresh", "V_tview", "V_sview", "sparsity", "ridge", "nonzero_rows", "callback",
                                  "mixed", "mixed_V", "single_column"), FLOATS,
       inplace={"": [["kwargs", "V"], ["args", "2"]]})
def _(b, k):
    from tensorly.solvers.nnls import hals_nnls
    kw = dict(n_iter_max=5)
    if k.startswith("mixed"):
        UtM, UtU = nnls_problem(b, k, mixed=True)
        return Call(hals_nnls, UtM, UtU, V=b.arr((3, 3), nonneg=True), **kw) if k == "mixed_V" else Call(hals_nnls, UtM, UtU, **kw)
    if k == "single_column":
        UtM, UtU = nnls_problem(b, k, cols=1)
        return Call(hals_nnls, UtM, UtU, **kw)
    UtM, UtU = nnls_problem(b, k)
    if k.startswith("V_"):
        return Call(hals_nnls, UtM, UtU, V=b.arr((3, 3), k[2:], nonneg=True), **kw)
    if k == "sparsity":
        return Call(hals_nnls, UtM, UtU, sparsity_coefficient=0.1, **kw)
    if k == "ridge":
        return Call(hals_nnls, UtM, UtU, ridge_coefficient=0.1, **kw)
    if k == "nonzero_rows":
        return Call(hals_nnls, UtM, UtU, nonzero_rows=True, **kw)
    if k == "callback":
        return Call(hals_nnls, UtM, UtU, callback=lambda V, e: None, **kw)
    return Call(hals_nnls, UtM, UtU, **kw)


@entry("solvers.fista", ARR + ("x_fresh", "x_tview", "sparsity", "ridge", "unconstrained", "lr", "mixed_x", "mixed_x_sview",
                              "vector_x", "core_list"), FLOATS)
def _(b, k):
    from tensorly.solvers.nnls import fista
    kw = dict(n_iter_max=5)
    if k.startswith("mixed_x"):
        UtM, UtU = nnls_problem(b, k, mixed=True)
        return Call(fista, UtM, UtU, x=b.arr((3, 3), akind(k), nonneg=True), **kw)
    if k == "vector_x":
        UtM, UtU = nnls_problem(b, k, cols=1, mixed=True)
        v = np.ascontiguousarray(UtM[:, 0])
        return Call(fista, v, UtU, x=b.arr((3,), nonneg=True), **kw)
    if k == "core_list":            # Tucker core update: UtU is a list of Gram matrices, x a core tensor
        grams = []
        for s in (2, 3, 2):
            u = b.arr((4, s))
            grams.append((u.T @ u).astype(b.dtype))
        return Call(fista, b.arr((2, 3, 2)), grams, x=b.arr((2, 3, 2), nonneg=True), lr=0.01, **kw)
    UtM, UtU = nnls_problem(b, k)
    if k.startswith("x_"):
        return Call(fista, UtM, UtU, x=b.arr((3, 3), k[2:], nonneg=True), **kw)
    if k == "sparsity":
        return Call(fista, UtM, UtU, sparsity_coef=0.1, **kw)
    if k == "ridge":
        return Call(fista, UtM, UtU, ridge_coef=0.1, **kw)
    if k == "unconstrained":
        return Call(fista, UtM, UtU, non_negative=False, **kw)
    if k == "lr":
        return Call(fista, UtM, UtU, lr=0.05, **kw)
    return Call(fista, UtM, UtU, **kw)


@entry("solvers.active_set_nnls", ARR + ("x_fresh", "x_sview", "singular_start", "mixed", "mixed_x", "mixed_x_sview", "mixed_x_core", "identity_x"), FLOATS)
def _(b, k):
    from tensorly.solvers.nnls import active_set_nnls
    if k == "singular_start":      # the start's passive set gives a singular system: documented fallback "start from zeros"
        u = b.arr((4, 2), nonneg=True)
        U = np.concatenate([u, u[:, :1]], axis=1)
        m = b.arr((4,), nonneg=True)
        return Call(active_set_nnls, (U.T @ m).astype(b.dtype), (U.T @ U).astype(b.dtype), x=np.ones(3, dtype=b.dtype), n_iter_max=5)
    if k == "identity_x":           # the least-squares solution on the start's support has a negative entry
        return Call(active_set_nnls, np.array([1.0, -1.0], dtype=b.dtype), np.eye(2, dtype=b.dtype), x=np.array([0.5, 0.5], dtype=b.dtype), n_iter_max=5)
    if k.startswith("mixed"):       # mixed-sign right-hand side + positive start: back-tracking path
        UtM, UtU = nnls_problem(b, k, cols=1, mixed=True)
        v = np.ascontiguousarray(UtM[:, 0])
        if k == "mixed":
            return Call(active_set_nnls, v, UtU, n_iter_max=5)
        if k == "mixed_x_core":
            u = b.arr((6, 4))
            m = b.arr((6,))
            return Call(active_set_nnls, (u.T @ m).astype(b.dtype), (u.T @ u).astype(b.dtype), x=b.arr((2, 2), nonneg=True), n_iter_max=5)
        return Call(active_set_nnls, v, UtU, x=b.arr((3,), akind(k), nonneg=True), n_iter_max=5)
    UtM, UtU = nnls_problem(b, k, cols=1)
    v = b.arr((3,), "fresh", nonneg=True)
    v[...] = UtM[:, 0]
    if k.startswith("x_"):
        return Call(active_set_nnls, v, UtU, x=b.arr((3,), k[2:], nonneg=True), n_iter_max=5)
    return Call(active_set_nnls, v, UtU, n_iter_max=5)


@entry("solvers.admm", ARR + tuple("c_" + n for n, _ in CONSTR) + ("unconstrained",), FLOATS)
def _(b, k):
    from tensorly.solvers.admm import admm
    UtM, UtU = nnls_problem(b, k, mixed=k in ("c_non_negative", "c_l1_reg", "c_simplex"))
    x = b.arr((3, 3), akind(k), nonneg=True)
    dual = b.arr((3, 3), akind(k))
    kw = dict(n_iter_max=4, n_const=1, order=0)
    if k.startswith("c_"):
        kw[k[2:]] = dict(CONSTR)[k[2:]]
    elif k != "unconstrained":
        kw["non_negative"] = True
    return Call(admm, UtM, UtU, x, dual, **kw)


@entry("solvers.process_regularization_weights", ("lists", "sparsity_list", "ridge_list", "scalars", "none", "zeros", "with_none"), FLOATS)
def _(b, k):
    from tensorly.solvers.penalizations import process_regularization_weights as f
    if k == "lists":
        return Call(f, [0.1, 0.0, 0.2], [0.0, 0.3, 0.0], 3)
    if k == "sparsity_list":
        return Call(f, None, [0.1, 0.3, 0.2], 3)
    if k == "ridge_list":
        return Call(f, [0.1, 0.3, 0.2], None, 3)
    if k == "scalars":
        return Call(f, 0.1, 0.2, 3)
    if k == "zeros":
        return Call(f, [0.0, 0.0, 0.0], [0.1, 0.0, 0.2], 3)
    if k == "with_none":
        return Call(f, [None, 0.1, None], [0.1, None, 0.2], 3)
    return Call(f, None, None, 3)


# ----------------------------------------------------------------------------- metrics
def _metric2(name, modname, kinds=ARR + ("axis", "vector", "vector_sview"), shape=(4, 3), out=None):
    @entry("metrics." + name, kinds, FLOATS, out=out)
    def _b(b, k, name=name, modname=modname, shape=shape):
        import importlib
        m = importlib.import_module("tensorly.metrics." + modname)
        if k == "axis":
            return Call(getattr(m, name), b.arr(shape), b.arr(shape), axis=0)
        if k.startswith("vector"):
            return Call(getattr(m, name), b.arr((6,), akind(k)), b.arr((6,), akind(k)))
        return Call(getattr(m, name), b.arr(shape, k), b.arr(shape, k))
    return _b


for _n in ("MSE", "RMSE", "reflective_correlation_coefficient", "covariance", "correlation"):
    _metric2(_n, "regression")
_metric2("R2_score", "regression", kinds=ARR + ("vector", "vector_sview"))


@entry("metrics.variance", ARR + ("axis",), FLOATS)
def _(b, k):
    from tensorly.metrics.regression import variance
    return Call(variance, b.arr((4, 3)), axis=0) if k == "axis" else Call(variance, b.arr((4, 3), k))


@entry("metrics.standard_deviation", ARR + ("axis",), FLOATS)
def _(b, k):
    from tensorly.metrics.regression import standard_deviation as f
    return Call(f, b.arr((4, 3)), axis=0) if k == "axis" else Call(f, b.arr((4, 3), k))


@entry("metrics.congruence_coefficient", ARR + ("lists", "tuples", "signed", "single_column"), FLOATS, out=[(["1"], "int")])
def _(b, k):
    from tensorly.metrics import congruence_coefficient as f
    if k == "lists":
        return Call(f, b.factors(SHAPE, 3), b.factors(SHAPE, 3))
    if k == "tuples":
        return Call(f, tuple(b.factors(SHAPE, 3)), tuple(b.factors(SHAPE, 3)))
    if k == "signed":
        return Call(f, b.arr((5, 3)), b.arr((5, 3)), absolute_value=False)
    if k == "single_column":
        return Call(f, b.arr((5, 1)), b.arr((5, 1)))
    return Call(f, b.arr((5, 3), k), b.arr((5, 3), k))


@entry("metrics.correlation_index", ("list", "tuple", "list_tview", "max_score", "min_score", "avg_score", "invalid"), FLOATS)
def _(b, k):
    from tensorly.metrics import correlation_index as f
    if k.endswith("_score"):
        return Call(f, b.factors(SHAPE, RANK), b.factors(SHAPE, RANK), method=k)
    if k == "invalid":
        return Call(f, b.factors(SHAPE, RANK), b.factors(SHAPE, RANK), method="bogus").raises()
    f1, f2 = b.factors(SHAPE, RANK, akind(k)), b.factors(SHAPE, RANK, akind(k))
    return Call(f, tuple(f1), tuple(f2)) if form_of(k) == "tuple" else Call(f, f1, f2)


@entry("metrics.leverage_score_dist", ARR + ("wide",), FLOATS, out=[([], "float64")])
def _(b, k):
    from tensorly.metrics import leverage_score_dist as f
    if k == "wide":
        return Call(f, b.arr((3, 5)))
    return Call(f, b.arr((5, 3), k))


@entry("metrics.vonneumann_entropy", ARR, FLOATS)
def _(b, k):
    from tensorly.metrics import vonneumann_entropy as f
    a = b.raw((3, 3))
    m = b.arr((3, 3), k)
    m[...] = a @ a.T / np.trace(a @ a.T)
    return Call(f, m)


@entry("metrics.cp_vonneumann_entropy", ("obj", "tuple"), FLOATS)
def _(b, k):
    from tensorly.metrics import cp_vonneumann_entropy as f
    return Call(f, b.cp(SHAPE, RANK, form_of(k), "nonunit", nonneg=True))


@entry("metrics.tt_vonneumann_entropy", ("obj", "list"), FLOATS)
def _(b, k):
    from tensorly.metrics import tt_vonneumann_entropy as f
    return Call(f, b.tt((3, 3), (1, 2, 1), form_of(k)))


# ----------------------------------------------------------------------------- preprocessing
@entry("preprocessing.svd_compress_tensor_slices", ("list", "tuple", "list_tview", "threshold", "max_rank", "tensor"), FLOATS)
def _(b, k):
    from tensorly.preprocessing import svd_compress_tensor_slices as f
    if k == "threshold":
        return Call(f, [b.arr((6, 3)) for _ in range(3)], compression_threshold=0.3)
    if k == "max_rank":
        return Call(f, [b.arr((6, 3)) for _ in range(3)], max_rank=2)
    if k == "tensor":
        return Call(f, b.arr((3, 6, 3)))
    sl = [b.arr((6 if i else 2, 3), akind(k)) for i in range(3)]
    return Call(f, tuple(sl) if form_of(k) == "tuple" else sl)


@entry("preprocessing.svd_decompress_parafac2_tensor", ("tuple", "list", "obj", "with_none", "weights_nonunit"), FLOATS)
def _(b, k):
    from tensorly.preprocessing import svd_decompress_parafac2_tensor as f
    p2 = b.p2(form_of(k) if k not in ("with_none", "weights_nonunit") else "tuple", "nonunit" if k == "weights_nonunit" else "ones")
    projs = p2[2] if not hasattr(p2, "projections") else p2.projections
    loads = [np.linalg.qr(b.raw((7, p.shape[0])))[0].astype(b.dtype) for p in projs]
    if k == "with_none":
        loads[1] = None
    return Call(f, p2, loads)


# ----------------------------------------------------------------------------- regression
def reg_data(b, k, nout=None):
    X = b.arr((8, 3, 2), akind(k))
    y = b.arr((8,) if nout is None else (8, nout), akind(k))
    return X, y


REG_OUT = []


@entry("regression.CPRegressor", ARR + ("y_matrix", "x_matrix"), FLOATS)
def _(b, k):
    from tensorly.regression import CPRegressor

    def run(X, y, Xnew):
        r = CPRegressor(weight_rank=2, n_iter_max=IT, verbose=0, random_state=1)
        r.fit(X, y)
        return {"weight_tensor_": r.weight_tensor_, "cp_weight_": r.cp_weight_, "vec_W_": r.vec_W_, "predict": r.predict(Xnew)}
    if k == "y_matrix":
        return Call(run, b.arr((8, 3, 2)), b.arr((8, 2)), b.arr((3, 3, 2)))
    if k == "x_matrix":
        return Call(run, b.arr((8, 4)), b.arr((8,)), b.arr((3, 4)))
    X, y = reg_data(b, k)
    return Call(run, X, y, b.arr((3, 3, 2), akind(k)))


@entry("regression.TuckerRegressor", ARR + ("x_order4", "ranks_list", "ranks_overlarge"), FLOATS)
def _(b, k):
    from tensorly.regression import TuckerRegressor

    def run(X, y, Xnew, weight_ranks=None):
        r = TuckerRegressor(weight_ranks=[2, 2] if weight_ranks is None else weight_ranks, n_iter_max=IT, verbose=0, random_state=1)
        r.fit(X, y)
        return {"weight_tensor_": r.weight_tensor_, "tucker_weight_": r.tucker_weight_, "vec_W_": r.vec_W_, "predict": r.predict(Xnew)}
    if k in ("ranks_list", "ranks_overlarge"):
        X, y = reg_data(b, "fresh")
        return Call(run, X, y, b.arr((3, 3, 2)), weight_ranks=[2, 2] if k == "ranks_list" else [5, 4])
    if k == "x_order4":
        def run4(X, y, Xnew):
            r = TuckerRegressor(weight_ranks=[2, 2, 2], n_iter_max=IT, verbose=0, random_state=1)
            r.fit(X, y)
            return {"weight_tensor_": r.weight_tensor_, "predict": r.predict(Xnew)}
        return Call(run4, b.arr((8, 3, 2, 2)), b.arr((8,)), b.arr((3, 3, 2, 2)))
    X, y = reg_data(b, k)
    return Call(run, X, y, b.arr((3, 3, 2), akind(k)))


PLSR_Y = ("y1d", "yn1", "y2d")
PLSR_PATHS = ("fit", "fit_transform", "transform_XY", "score")


def plsr_y(b, shape_kind, kind="fresh"):
    if shape_kind == "y1d":
        return b.arr((8,), kind)
    return b.arr((8, 1) if shape_kind == "yn1" else (8, 2), kind)


@entry("regression.CP_PLSR", ARR + tuple("%s_%s" % (p, y) for p in PLSR_PATHS for y in PLSR_Y)
       + ("transform_XY_y1d_sview", "transform_XY_y2d_tview", "fit_transform_y1d_sview", "x_matrix_y1d", "invalid_predict", "invalid_Y"), FLOATS)
def _(b, k):
    from tensorly.regression import CP_PLSR

    def run(X, Y, Xnew):             # fit, then the three queries on new data
        r = CP_PLSR(2, n_iter_max=IT)
        r.fit(X, Y)
        return {"X_factors": r.X_factors, "Y_factors": r.Y_factors, "coef_": r.coef_, "predict": r.predict(Xnew), "transform": r.transform(Xnew)}

    def run_ft(X, Y):
        return CP_PLSR(2, n_iter_max=IT).fit_transform(X, Y)

    def run_ty(X, Y, X2, Y2):         # a fitted model transforms the caller's (X2, Y2)
        r = CP_PLSR(2, n_iter_max=IT).fit(X, Y)
        return r.transform(X2, Y2)

    def run_score(X, Y, X2, Y2):
        r = CP_PLSR(2, n_iter_max=IT).fit(X, Y)
        return r.score(X2, Y2)

    def run_bad(X, Y, Xnew):
        return CP_PLSR(2, n_iter_max=IT).fit(X, Y).predict(Xnew)
    if k in ARR:
        X, Y = reg_data(b, k, nout=2)
        return Call(run, X, Y, b.arr((3, 3, 2), akind(k)))
    if k == "invalid_predict":
        X, Y = reg_data(b, k, nout=2)
        return Call(run_bad, X, Y, b.arr((3, 4, 2))).raises()
    if k == "invalid_Y":
        X, Y = reg_data(b, k, nout=2)
        return Call(run_ty, X, Y, b.arr((8, 3, 2)), b.arr((8, 3))).raises()
    if k == "x_matrix_y1d":
        return Call(run_ty, b.arr((8, 4)), b.arr((8,)), b.arr((8, 4)), b.arr((8,)))
    ak = akind(k)
    ysh = [y for y in PLSR_Y if y in k][0]
    ncomp_ok = ysh == "y2d"
    X = b.arr((8, 3, 2), ak)
    Y = plsr_y(b, ysh, ak)
    if k.startswith("fit_transform"):
        return Call(run_ft, X, Y)
    if k.startswith("transform_XY"):
        return Call(run_ty, X, Y, b.arr((8, 3, 2), ak), plsr_y(b, ysh, ak))
    if k.startswith("score"):
        return Call(run_score, X, Y, b.arr((8, 3, 2), ak), plsr_y(b, "yn1" if ysh == "y1d" else ysh, ak))
    return Call(run, X, Y, b.arr((3, 3, 2), ak))


# ----------------------------------------------------------------------------- random
def _rand(name, args, kinds=("cp", "full"), kw=None, fname=None):
    @entry("random." + name, kinds, ALLDT if name in ("random_tensor",) else FLOATS)
    def _b(b, k, name=fname or name, args=args, kw=kw):
        import copy
        import tensorly.random as R
        args = copy.deepcopy(args)          # every call owns its shape / rank containers
        k2 = dict(kw or {})
        k2.update(random_state=1, dtype=getattr(np, b.dtype))
        if k == "full":
            k2["full"] = True
        if k == "orthogonal":
            k2["orthogonal"] = True
        if k == "non_negative":
            k2["non_negative"] = True
        if k == "normalise":
            k2["normalise_factors"] = True
        return Call(getattr(R, name), *args, **k2)
    return _b


_rand("random_tensor", (SHAPE,), kinds=("cp",))
_rand("random_cp", (SHAPE, RANK), kinds=("cp", "full", "orthogonal", "normalise"))
_rand("random_tucker", (SHAPE, [2, 2, 2]), kinds=("cp", "full", "orthogonal", "non_negative"))
_rand("random_tucker_ranks", (list(SHAPE), (2, 9, 2)), kinds=("cp", "full"), fname="random_tucker")
_rand("random_tt_ranks", (list(SHAPE), (1, 7, 9, 1)), kinds=("cp", "full"), fname="random_tt")
_rand("random_tr_ranks", (list(SHAPE), (2, 3, 9, 2)), kinds=("cp", "full"), fname="random_tr")
_rand("random_tt_matrix_ranks", ([2, 2, 3, 2], (1, 9, 1)), kinds=("cp", "full"), fname="random_tt_matrix")
_rand("random_parafac2_shapes", (((4, 3), (5, 3), (4, 3)), RANK), kinds=("cp", "full"), fname="random_parafac2")
_rand("random_tt", (SHAPE, [1, 2, 2, 1]))
_rand("random_tt_matrix", ((2, 2, 3, 2), [1, 2, 1]))
_rand("random_tr", (SHAPE, [2, 2, 2, 2]))
_rand("random_parafac2", ([(4, 3), (5, 3), (4, 3)], RANK), kinds=("cp", "full", "normalise"))


# ----------------------------------------------------------------------------- rank validators (option containers)
@entry("validate.validate_tr_rank", ("list", "tuple", "int", "same", "float", "invalid"), FLOATS)
def _(b, k):
    from tensorly.tr_tensor import validate_tr_rank as f
    arg = {"list": [2, 3, 9, 2], "tuple": (2, 3, 9, 2), "int": 2, "same": "same", "float": 0.5, "invalid": [2, 3, 2, 3]}[k]
    c = Call(f, SHAPE, arg)
    return c.raises() if k == "invalid" else c


@entry("validate.validate_tt_rank", ("list", "list_overlarge", "tuple", "int", "same", "float", "no_overparam", "invalid"), FLOATS)
def _(b, k):
    from tensorly.tt_tensor import validate_tt_rank as f
    if k == "no_overparam":
        return Call(f, SHAPE, [1, 7, 9, 1], allow_overparametrization=False)
    arg = {"list": [1, 2, 2, 1], "list_overlarge": [1, 7, 9, 1], "tuple": (1, 7, 9, 1), "int": 2, "same": "same", "float": 0.5,
           "invalid": [2, 2, 2, 1]}[k]
    c = Call(f, SHAPE, arg)
    return c.raises() if k == "invalid" else c


@entry("validate.validate_tucker_rank", ("list", "tuple", "int", "same", "float", "fixed_modes", "fixed_modes_unsorted"), FLOATS)
def _(b, k):
    from tensorly.tucker_tensor import validate_tucker_rank as f
    if k == "fixed_modes":
        return Call(f, SHAPE, 0.5, fixed_modes=[1])
    if k == "fixed_modes_unsorted":
        return Call(f, (3, 4, 2, 3), 0.5, fixed_modes=[3, 0])
    arg = {"list": [2, 9, 2], "tuple": (2, 9, 2), "int": 2, "same": "same", "float": 0.5}[k]
    return Call(f, SHAPE, arg)


@entry("validate.validate_cp_rank", ("int", "same", "float", "shape_list"), FLOATS)
def _(b, k):
    from tensorly.cp_tensor import validate_cp_rank as f
    if k == "shape_list":
        return Call(f, list(SHAPE), 0.5, rounding="ceil")
    return Call(f, SHAPE, {"int": 3, "same": "same", "float": 0.5}[k])


@entry("validate.validate_tt_matrix_rank", ("list", "tuple", "int", "same", "float"), FLOATS)
def _(b, k):
    from tensorly.tt_matrix import validate_tt_matrix_rank as f
    arg = {"list": [1, 9, 1], "tuple": (1, 9, 1), "int": 2, "same": "same", "float": 0.5}[k]
    return Call(f, (2, 2, 3, 2), arg)
