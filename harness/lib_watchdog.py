"""Process pool with a per-case CPU-time watchdog.

harness.common.execute_cases uses Pool.map: one case that never returns (seen: LAPACK spinning on NaN / inf input
produced by a mutated fit) blocks the whole check.  Here every worker handles one case at a time; a worker whose
CPU time on the current case exceeds the budget is killed, the case is reported through `hung(case)` and a new
worker takes its place.  CPU time (not wall time), so a loaded machine does not produce false timeouts.
"""
import multiprocessing as mp
import os
import time
from multiprocessing.connection import wait

from .common import NCPU, _exec_one, _init_worker

_TICK = os.sysconf("SC_CLK_TCK")


def _cpu_seconds(pid):
    try:
        with open("/proc/%d/stat" % pid) as fh:
            parts = fh.read().rsplit(")", 1)[1].split()
        return (int(parts[11]) + int(parts[12])) / _TICK        # utime + stime
    except Exception:
        return 0.0


def _worker(conn, fn, repo):
    _init_worker(repo)
    while True:
        msg = conn.recv()
        if msg is None:
            return
        i, case = msg
        conn.send((i, _exec_one((fn, case))))


def execute_cases_watchdog(fn, cases, hung, repo=None, procs=NCPU, cpu_budget_s=60.0, wall_budget_s=1800.0):
    cases = list(cases)
    results = [None] * len(cases)
    ctx = mp.get_context("fork")
    todo = list(range(len(cases)))[::-1]
    workers = []            # dicts: proc, conn, idx, cpu0, t0

    def spawn():
        parent, child = ctx.Pipe()
        p = ctx.Process(target=_worker, args=(child, fn, repo), daemon=True)
        p.start()
        child.close()
        return {"proc": p, "conn": parent, "idx": None, "cpu0": 0.0, "t0": 0.0}

    def give(w):
        if todo:
            i = todo.pop()
            w["idx"], w["cpu0"], w["t0"] = i, _cpu_seconds(w["proc"].pid), time.time()
            w["conn"].send((i, cases[i]))
        else:
            w["idx"] = None

    for _ in range(max(1, min(procs, len(cases)))):
        w = spawn()
        workers.append(w)
        give(w)
    while any(w["idx"] is not None for w in workers):
        busy = [w for w in workers if w["idx"] is not None]
        for conn in wait([w["conn"] for w in busy], timeout=0.5):
            w = next(x for x in busy if x["conn"] is conn)
            try:
                i, res = conn.recv()
                results[i] = res
                give(w)
            except (EOFError, OSError):                       # worker died: report the case as hung / crashed
                results[w["idx"]] = hung(cases[w["idx"]])
                workers.remove(w)
                nw = spawn()
                workers.append(nw)
                give(nw)
        for w in list(workers):
            if w["idx"] is None:
                continue
            if _cpu_seconds(w["proc"].pid) - w["cpu0"] > cpu_budget_s or time.time() - w["t0"] > wall_budget_s:
                w["proc"].kill()
                w["proc"].join(5)
                results[w["idx"]] = hung(cases[w["idx"]])
                workers.remove(w)
                nw = spawn()
                workers.append(nw)
                give(nw)
    for w in workers:
        try:
            w["conn"].send(None)
        except Exception:
            pass
    for w in workers:
        w["proc"].join(2)
        if w["proc"].is_alive():
            w["proc"].kill()
    return results
