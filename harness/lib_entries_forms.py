"""Registry part 4: further domain dimensions of the C15 / C18 monitors (vocabulary: Ownership.tla ArgForms).

  call:positional / call:keyword   every argument handed over positionally in the published order / by its
                                   published keyword name -- names and order FROZEN in lib_signatures.py
  alias:same_object / alias:view   two array arguments that are the same object / overlapping views
  prev:failed_call                 the same argument objects were first used in a call that failed half-way
  prev:failed_estimator            an estimator whose first fit failed is repaired and fitted again
  size:rank1 / size:rank_eq_dim / size:rank_gt_dim / size:single_sample / size:single_column
  flags:combined                   two return options together
  spelling:equivalent              option spellings the docstrings list as equivalent
  entry:method / entry:alias       a second public entry point sharing a helper (wrapper-class methods, aliases)
Obligations are unchanged: caller-owned inputs keep their digests (C15), returned arrays keep the input dtype (C18).
"""
import ast
import zlib

import numpy as np

from .lib_entrypoints import ALLDT, ENTRIES, FLOATS, RANK, SHAPE, B, Call, entry
from .lib_signatures import SIGNATURES

IT = 3


def tl():
    import tensorly
    return tensorly


def D():
    import tensorly.decomposition as d
    return d


# ----------------------------------------------------------------------------- (1) call forms
def to_positional(c, sig):
    """All supplied arguments positionally in the frozen order; intermediate parameters get their published default."""
    names = [n for n, d in sig if n != "**"]
    given = dict(zip(names, c.args))
    extra = {k: v for k, v in c.kwargs.items() if k not in names}          # **kwargs of the callee (e.g. dtype=)
    given.update({k: v for k, v in c.kwargs.items() if k in names})
    last = max(i for i, n in enumerate(names) if n in given)
    args = []
    for n, d in sig[:last + 1]:
        args.append(given[n] if n in given else ast.literal_eval(d))
    out = Call(c.fn, *args, **extra)
    out.opt, out.expect = c.opt, c.expect
    return out.form("call:positional")


def to_keyword(c, sig):
    names = [n for n, d in sig if n != "**"]
    kw = dict(zip(names, c.args))
    kw.update(c.kwargs)
    out = Call(c.fn, **kw)
    out.opt, out.expect = c.opt, c.expect
    return out.form("call:keyword")


def _callform_entry(name, e, sig):
    """Keyword form: a smallest set of kinds that together supply every keyword the registry ever passes to this entry
    (greedy cover, no product of kinds x forms); positional form: the first kind and the kind reaching furthest into the
    published parameter list."""
    names = [n for n, d in sig if n != "**"]
    kinds = [k for k in e.kinds if "@" not in k and not k.startswith("invalid")]
    supplied = {}
    for k in kinds:
        try:
            c = e.build(B("float64" if "float64" in e.dtypes else e.dtypes[0], 0), k)
        except Exception:
            continue
        if c.fn is None or len(c.args) > len(names):
            continue
        supplied[k] = set(names[:len(c.args)]) | set(c.kwargs)
    if not supplied:
        return None
    todo, kw_kinds = set().union(*supplied.values()), []
    while todo and len(kw_kinds) < 8:
        best = max(supplied, key=lambda k: (len(supplied[k] & todo), -kinds.index(k)))
        if not supplied[best] & todo:
            break
        kw_kinds.append(best)
        todo -= supplied[best]
    first = kinds[0] if kinds[0] in supplied else kw_kinds[0]
    far = max(supplied, key=lambda k: (max([names.index(n) for n in supplied[k] if n in names] or [0]), -kinds.index(k)))
    pos_kinds = [first] + ([far] if far != first else [])
    ks = tuple("positional:%s" % k for k in pos_kinds) + tuple("keyword:%s" % k for k in kw_kinds)

    @entry(name + "#callform", ks, e.dtypes)
    def _b(b, k, e=e, sig=sig):
        form, _, base = k.partition(":")
        c = e.build(b, base)
        return to_positional(c, sig) if form == "positional" else to_keyword(c, sig)
    return _b


for _name in sorted(SIGNATURES):
    if _name in ENTRIES and not ENTRIES[_name].tenalg:
        _callform_entry(_name, ENTRIES[_name], SIGNATURES[_name])
for _name in ("tenalg.mode_dot", "tenalg.multi_mode_dot", "tenalg.khatri_rao", "tenalg.kronecker", "tenalg.tensordot",
              "tenalg.unfolding_dot_khatri_rao", "tenalg.inner", "tenalg.outer", "tenalg.batched_outer"):
    if _name in SIGNATURES:
        _callform_entry(_name, ENTRIES[_name], SIGNATURES[_name])


# ----------------------------------------------------------------------------- (2) aliasing of array arguments
@entry("tenalg.multi_mode_dot#alias", ("same_matrix", "same_matrix@einsum"), ALLDT)
def _(b, k):
    M = b.arr((3, 3))
    return Call(tl().tenalg.multi_mode_dot, b.arr((3, 3, 3)), [M, M, M]).form("alias:same_object")


@entry("tenalg.khatri_rao#alias", ("same_matrix", "same_matrix@einsum"), ALLDT)
def _(b, k):
    A = b.arr((3, RANK))
    return Call(tl().tenalg.khatri_rao, [A, A, A]).form("alias:same_object")


@entry("tenalg.kronecker#alias", ("same_matrix",), ALLDT)
def _(b, k):
    A = b.arr((2, 3))
    return Call(tl().tenalg.kronecker, [A, A]).form("alias:same_object")


@entry("tenalg.inner#alias", ("same_tensor", "view"), ALLDT)
def _(b, k):
    X = b.arr((4, 4, 2))
    if k == "view":
        return Call(tl().tenalg.inner, X[:3], X[1:]).form("alias:view")
    return Call(tl().tenalg.inner, X, X).form("alias:same_object")


@entry("tenalg.tensordot#alias", ("same_tensor", "same_tensor@einsum"), ALLDT)
def _(b, k):
    X = b.arr((3, 4, 3))
    return Call(tl().tenalg.tensordot, X, X, modes=([0, 1], [2, 1])).form("alias:same_object")


@entry("tenalg.outer#alias", ("same_vector",), ALLDT)
def _(b, k):
    v = b.arr((3,))
    return Call(tl().tenalg.outer, [v, v, v]).form("alias:same_object")


@entry("tenalg.mode_dot#alias", ("matrix_is_unfolding",), ALLDT)
def _(b, k):
    X = b.arr((3, 3))
    return Call(tl().tenalg.mode_dot, X, X, 0).form("alias:same_object")


@entry("tenalg.svd_flip#alias", ("v_is_ut",), ALLDT)
def _(b, k):
    from tensorly.tenalg.svd import svd_flip
    U = b.arr((4, 4))
    return Call(svd_flip, U, U.T).form("alias:view")


@entry("metrics.MSE#alias", ("same", "view"), FLOATS)
def _(b, k):
    from tensorly.metrics.regression import MSE
    y = b.arr((7,))
    return Call(MSE, y[:-1], y[1:]).form("alias:view") if k == "view" else Call(MSE, y, y).form("alias:same_object")


@entry("metrics.correlation#alias", ("same",), FLOATS)
def _(b, k):
    from tensorly.metrics.regression import correlation
    y = b.arr((4, 3))
    return Call(correlation, y, y, axis=0).form("alias:same_object")


@entry("metrics.congruence_coefficient#alias", ("same_matrix", "same_lists"), FLOATS)
def _(b, k):
    from tensorly.metrics import congruence_coefficient as f
    if k == "same_lists":
        fs = b.factors(SHAPE, 3)
        return Call(f, fs, fs).form("alias:same_object")
    A = b.arr((5, 3))
    return Call(f, A, A).form("alias:same_object")


@entry("metrics.correlation_index#alias", ("same_lists",), FLOATS)
def _(b, k):
    from tensorly.metrics import correlation_index as f
    fs = b.factors(SHAPE, RANK)
    return Call(f, fs, fs).form("alias:same_object")


@entry("cp_tensor.cp_permute_factors#alias", ("ref_is_target",), FLOATS)
def _(b, k):
    from tensorly.cp_tensor import cp_permute_factors
    cp = b.cp(SHAPE, 3, "obj", "nonunit")
    return Call(cp_permute_factors, cp, cp).form("alias:same_object")


@entry("cp_tensor.cp_to_tensor#alias", ("same_factor",), ALLDT)
def _(b, k):
    A = b.arr((3, RANK))
    return Call(tl().cp_to_tensor, ((np.arange(RANK) + 2).astype(b.dtype), [A, A, A])).form("alias:same_object")


@entry("cp_tensor.cp_normalize#alias", ("same_factor",), ALLDT)
def _(b, k):
    from tensorly.cp_tensor import cp_normalize
    A = b.arr((3, RANK))
    return Call(cp_normalize, ((np.arange(RANK) + 2).astype(b.dtype), [A, A, A])).form("alias:same_object")


@entry("cp_tensor.cp_lstsq_grad#alias", ("mask_is_tensor",), ALLDT)
def _(b, k):
    from tensorly.cp_tensor import cp_lstsq_grad
    X = b.arr(SHAPE)
    return Call(cp_lstsq_grad, b.cp(SHAPE, RANK), X, mask=X).form("alias:same_object")


@entry("solvers.fista#alias", ("x_is_UtM", "x_is_UtM_mixed"), FLOATS)
def _(b, k):
    from tensorly.solvers.nnls import fista
    from .lib_entries_decomp import nnls_problem
    UtM, UtU = nnls_problem(b, "fresh", mixed=k.endswith("mixed"))
    return Call(fista, UtM, UtU, x=UtM, n_iter_max=5).form("alias:same_object")


@entry("solvers.active_set_nnls#alias", ("x_is_Utm",), FLOATS)
def _(b, k):
    from tensorly.solvers.nnls import active_set_nnls
    from .lib_entries_decomp import nnls_problem
    UtM, UtU = nnls_problem(b, "fresh", cols=1, mixed=True)
    v = np.ascontiguousarray(np.abs(UtM[:, 0]) + 0.1).astype(b.dtype)
    return Call(active_set_nnls, v, UtU, x=v, n_iter_max=5).form("alias:same_object")


@entry("solvers.admm#alias", ("x_is_dual",), FLOATS)
def _(b, k):
    from tensorly.solvers.admm import admm
    from .lib_entries_decomp import nnls_problem
    UtM, UtU = nnls_problem(b, "fresh")
    x = b.arr((3, 3), nonneg=True)
    return Call(admm, UtM, UtU, x, x, n_iter_max=4, n_const=1, order=0, non_negative=True).form("alias:same_object")


@entry("solvers.hals_nnls#alias", ("UtU_view_of_UtM",), FLOATS)
def _(b, k):
    from tensorly.solvers.nnls import hals_nnls
    big = b.arr((3, 6), nonneg=True)            # UtM and UtU are windows on one buffer (neither is the mutable V)
    U = b.arr((5, 3), nonneg=True)
    big[:, :3] = U.T @ U
    return Call(hals_nnls, big[:, 3:], big[:, :3], n_iter_max=5).form("alias:view")


@entry("decomposition.parafac#alias", ("init_same_factor", "mask_is_tensor"), ALLDT)
def _(b, k):
    if k == "mask_is_tensor":
        X = np.abs(b.lowrank(SHAPE, RANK)).astype(b.dtype) if not b.cplx else b.lowrank(SHAPE, RANK)
        return Call(D().parafac, X, RANK, mask=X, n_iter_max=IT, tol=0).form("alias:same_object")
    A = b.arr((3, RANK))
    return Call(D().parafac, b.lowrank((3, 3, 3), RANK), RANK, init=(None, [A, A, A]), n_iter_max=IT, tol=0).form("alias:same_object")


@entry("decomposition.non_negative_parafac_hals#alias", ("init_same_factor",), FLOATS)
def _(b, k):
    A = b.arr((3, RANK), nonneg=True)
    return Call(D().non_negative_parafac_hals, b.lowrank((3, 3, 3), RANK, nonneg=True), RANK, init=(None, [A, A, A]), n_iter_max=IT, tol=0).form("alias:same_object")


@entry("decomposition.tucker#alias", ("init_same_factor",), ALLDT)
def _(b, k):
    A = b.arr((3, 2))
    return Call(D().tucker, b.lowrank((3, 3, 3), RANK), [2, 2, 2], init=(b.arr((2, 2, 2)), [A, A, A]), n_iter_max=IT, tol=0).form("alias:same_object")


@entry("decomposition.parafac2#alias", ("same_slice",), FLOATS)
def _(b, k):
    s = b.arr((4, 3))
    return Call(D().parafac2, [s, s, s], RANK, n_iter_max=IT, tol=0, random_state=1, n_iter_parafac=2, linesearch=False).form("alias:same_object")


@entry("decomposition.coupled_matrix_tensor_3d_factorization#alias", ("matrix_view_of_tensor",), FLOATS)
def _(b, k):
    X = b.lowrank((3, 4, 2), RANK)
    return Call(D().coupled_matrix_tensor_3d_factorization, X, X[:, :, 0], RANK, n_iter_max=IT).form("alias:view")


@entry("regression.CP_PLSR#alias", ("Y_is_X", "Y_view_of_X"), FLOATS)
def _(b, k):
    from tensorly.regression import CP_PLSR

    def run(X, Y):
        r = CP_PLSR(2, n_iter_max=IT).fit(X, Y)
        return r.transform(X, Y)
    X = b.arr((8, 4))
    return Call(run, X, X[:, :2]).form("alias:view") if k == "Y_view_of_X" else Call(run, X, X).form("alias:same_object")


@entry("regression.CPRegressor#alias", ("y_view_of_X",), FLOATS)
def _(b, k):
    from tensorly.regression import CPRegressor

    def run(X, y):
        r = CPRegressor(weight_rank=2, n_iter_max=IT, verbose=0, random_state=1).fit(X, y)
        return r.predict(X)
    X = b.arr((8, 3, 2))
    return Call(run, X, X[:, 0, 0]).form("alias:view")


# ----------------------------------------------------------------------------- (3) a previous failed call
def _after_failure(name, builder, bad, dtypes=FLOATS):
    """Trace: first the same call with `bad` options (fails half-way), then the regular call on the same objects."""
    @entry(name + "#after_failure", tuple(bad), dtypes)
    def _b(b, k, builder=builder, bad=bad):
        c = builder(b)
        c.first_call_overrides = dict(bad[k])
        return c.form("prev:failed_call")
    return _b


_after_failure("decomposition.parafac", lambda b: Call(D().parafac, b.lowrank(SHAPE, RANK), RANK, init=b.cp(SHAPE, RANK, "obj"), fixed_modes=[0],
                                                        n_iter_max=IT, tol=1e-12),
               {"bad_cvg_criterion": {"cvg_criterion": "bogus"}, "bad_svd": {"init": "svd", "svd": "bogus"}, "bad_mask_shape": {"mask": np.ones((2, 2))}}, ALLDT)
_after_failure("decomposition.non_negative_parafac", lambda b: Call(D().non_negative_parafac, b.lowrank(SHAPE, RANK, nonneg=True), RANK,
                                                                     init=b.cp(SHAPE, RANK, "obj", nonneg=True), n_iter_max=IT, tol=1e-12),
               {"bad_cvg_criterion": {"cvg_criterion": "bogus"}})
_after_failure("decomposition.non_negative_parafac_hals", lambda b: Call(D().non_negative_parafac_hals, b.lowrank(SHAPE, RANK, nonneg=True), RANK,
                                                                          init=b.cp(SHAPE, RANK, "obj", nonneg=True), sparsity_coefficients=[0.1, 0.1, 0.1],
                                                                          fixed_modes=[1], n_iter_max=IT, tol=1e-12),
               {"bad_cvg_criterion": {"cvg_criterion": "bogus"}, "bad_sparsity_length": {"sparsity_coefficients": [0.1]}})
_after_failure("decomposition.constrained_parafac", lambda b: Call(D().constrained_parafac, b.lowrank(SHAPE, RANK, nonneg=True), RANK,
                                                                    init=b.cp(SHAPE, RANK, "obj", nonneg=True), non_negative={0: True, -1: True},
                                                                    n_iter_max=IT, n_iter_max_inner=3),
               {"bad_double_constraint": {"unimodality": True}, "bad_init": {"init": "bogus"}})
_after_failure("decomposition.tucker", lambda b: Call(D().tucker, b.lowrank(SHAPE, RANK), [2, 3, 2], init=b.tucker(SHAPE, (2, 3, 2), "tuple"),
                                                      fixed_factors=[2, 0], n_iter_max=IT, tol=0),
               {"bad_svd": {"init": "svd", "fixed_factors": None, "svd": "bogus"}, "bad_mask_shape": {"mask": np.ones((2, 2))}}, ALLDT)
_after_failure("decomposition.non_negative_tucker_hals", lambda b: Call(D().non_negative_tucker_hals, b.lowrank(SHAPE, RANK, nonneg=True), [2, 3, 2],
                                                                         init=b.tucker(SHAPE, (2, 3, 2), "tuple", nonneg=True), sparsity_coefficients=[0.1, 0.1, 0.1],
                                                                         fixed_modes=[0], n_iter_max=IT, tol=0),
               {"bad_sparsity_length": {"sparsity_coefficients": [0.1]}})
_after_failure("decomposition.tensor_ring_als", lambda b: Call(D().tensor_ring_als, b.arr(SHAPE), [2, 2, 2, 2], n_iter_max=IT, random_state=1),
               {"bad_ls_solve": {"ls_solve": "bogus"}})
_after_failure("decomposition.tensor_ring", lambda b: Call(D().tensor_ring, b.arr((4, 3, 2)), [2, 2, 9, 2]),
               {"bad_svd": {"svd": "bogus"}}, ALLDT)
_after_failure("decomposition.parafac2", lambda b: Call(D().parafac2, [b.arr((4, 3)) for _ in range(3)], RANK, n_iter_max=IT, tol=0, random_state=1,
                                                         n_iter_parafac=2, linesearch=False, nn_modes=[0]),
               {"bad_init": {"init": "bogus"}, "bad_svd": {"init": "svd", "svd": "bogus"}})
_after_failure("tenalg.svd_interface", lambda b: Call(tl().tenalg.svd_interface, b.arr((5, 4)), n_eigenvecs=2, mask=b.mask((5, 4)), n_iter_mask_imputation=2),
               {"bad_method": {"method": "bogus"}, "bad_nonneg": {"non_negative": "bogus"}}, ALLDT)
def _hals_call(b):
    from tensorly.solvers.nnls import hals_nnls
    from .lib_entries_decomp import nnls_problem
    UtM, UtU = nnls_problem(b, "fresh")
    return Call(hals_nnls, UtM, UtU, V=b.arr((3, 3), nonneg=True), n_iter_max=5)


_after_failure("solvers.hals_nnls", _hals_call, {"bad_sparsity": {"sparsity_coefficient": "a"}})


@entry("decomposition.CP.fit_transform#estimator_reuse", ("bad_cvg_then_fixed",), ALLDT)
def _(b, k):
    def run(X, **kw):
        est = D().CP(RANK, n_iter_max=IT, tol=1e-12, cvg_criterion="bogus", **kw)
        try:
            est.fit_transform(X)
        except TypeError:
            pass
        est.cvg_criterion = "abs_rec_error"
        return est.fit_transform(X)
    return Call(run, b.lowrank(SHAPE, RANK), init=b.cp(SHAPE, RANK, "obj"), fixed_modes=[0, 2]).form("prev:failed_estimator")


@entry("decomposition.Tucker.fit_transform#estimator_reuse", ("bad_svd_then_fixed",), ALLDT)
def _(b, k):
    def run(X, rank):
        est = D().Tucker(rank, n_iter_max=IT, tol=0, svd="bogus")
        try:
            est.fit_transform(X)
        except Exception:
            pass
        est.svd = "truncated_svd"
        return est.fit_transform(X)
    return Call(run, b.lowrank(SHAPE, RANK), [5, 6, 4]).form("prev:failed_estimator")


@entry("regression.CP_PLSR#estimator_reuse", ("bad_predict_then_valid",), FLOATS)
def _(b, k):
    from tensorly.regression import CP_PLSR

    def run(X, Y, Xbad, Xnew):
        r = CP_PLSR(2, n_iter_max=IT).fit(X, Y)
        try:
            r.predict(Xbad)
        except ValueError:
            pass
        return {"predict": r.predict(Xnew), "transform": r.transform(Xnew, Y[:3])}
    return Call(run, b.arr((8, 3, 2)), b.arr((8,)), b.arr((3, 4, 2)), b.arr((3, 3, 2))).form("prev:failed_estimator")


# ----------------------------------------------------------------------------- (4) rank / size relations
SIZE = {"rank1": (1, "size:rank1"), "rank_eq_dim": (2, "size:rank_eq_dim"), "rank_gt_dim": (5, "size:rank_gt_dim")}     # SHAPE = (3, 4, 2)


def _cp_sizes(name, fn, nonneg=False, extra=None, dtypes=FLOATS, kinds=tuple(SIZE)):
    @entry(name + "#size", kinds, dtypes)
    def _b(b, k, fn=fn, nonneg=nonneg, extra=extra):
        rank, form = SIZE[k]
        return Call(fn(), b.lowrank(SHAPE, 2, nonneg=nonneg), rank, **(extra or {})).form(form)
    return _b


_cp_sizes("decomposition.parafac", lambda: D().parafac, extra=dict(n_iter_max=IT, tol=0, random_state=1), dtypes=ALLDT)
_cp_sizes("decomposition.non_negative_parafac", lambda: D().non_negative_parafac, True, dict(n_iter_max=IT, tol=0, random_state=1))
_cp_sizes("decomposition.non_negative_parafac_hals", lambda: D().non_negative_parafac_hals, True, dict(n_iter_max=IT, tol=0, random_state=1))
_cp_sizes("decomposition.constrained_parafac", lambda: D().constrained_parafac, True, dict(n_iter_max=IT, n_iter_max_inner=3, non_negative=True, random_state=1))
_cp_sizes("decomposition.randomised_parafac", lambda: D().randomised_parafac, extra=dict(n_samples=6, n_iter_max=IT, random_state=1, verbose=0))
_cp_sizes("decomposition.parafac_power_iteration", lambda: D().parafac_power_iteration, extra=dict(n_repeat=2, n_iteration=2))


@entry("decomposition.tucker#size", ("rank1", "rank_eq_dim", "rank_gt_dim"), ALLDT)
def _(b, k):
    rank = {"rank1": [1, 1, 1], "rank_eq_dim": [3, 4, 2], "rank_gt_dim": [2, 9, 2]}[k]
    return Call(D().tucker, b.lowrank(SHAPE, 2), rank, n_iter_max=IT, tol=0).form(SIZE[k][1])


@entry("decomposition.non_negative_tucker_hals#size", ("rank1", "rank_eq_dim"), FLOATS)
def _(b, k):
    rank = {"rank1": [1, 1, 1], "rank_eq_dim": [3, 4, 2]}[k]
    return Call(D().non_negative_tucker_hals, b.lowrank(SHAPE, 2, nonneg=True), rank, n_iter_max=IT, tol=0).form(SIZE[k][1])


@entry("decomposition.tensor_train#size", ("rank1", "rank_eq_dim"), ALLDT)
def _(b, k):
    return Call(D().tensor_train, b.arr(SHAPE), [1, 1, 1, 1] if k == "rank1" else [1, 3, 2, 1]).form(SIZE[k][1])


@entry("decomposition.tensor_ring#size", ("rank1",), ALLDT)
def _(b, k):
    return Call(D().tensor_ring, b.arr((4, 3, 2)), [1, 1, 1, 1]).form("size:rank1")


@entry("decomposition.parafac2#size", ("rank1", "rank_eq_dim", "single_slice"), FLOATS)
def _(b, k):
    kw = dict(n_iter_max=IT, tol=0, random_state=1, n_iter_parafac=2, linesearch=False)
    if k == "single_slice":
        return Call(D().parafac2, [b.arr((4, 3))], RANK, **kw).form("size:single_sample")
    return Call(D().parafac2, [b.arr((4, 3)) for _ in range(3)], 1 if k == "rank1" else 3, **kw).form(SIZE[k][1])


@entry("tenalg.svd_interface#size", ("k1", "k_eq_min", "k_gt_max", "single_column", "single_row"), ALLDT)
def _(b, k):
    f = tl().tenalg.svd_interface
    if k == "single_column":
        return Call(f, b.arr((5, 1)), n_eigenvecs=1).form("size:single_column")
    if k == "single_row":
        return Call(f, b.arr((1, 4)), n_eigenvecs=1).form("size:single_sample")
    n, form = {"k1": (1, "size:rank1"), "k_eq_min": (4, "size:rank_eq_dim"), "k_gt_max": (7, "size:rank_gt_dim")}[k]
    return Call(f, b.arr((5, 4)), n_eigenvecs=n).form(form)


@entry("solvers.hals_nnls#size", ("rank1", "single_column"), FLOATS)
def _(b, k):
    from tensorly.solvers.nnls import hals_nnls
    if k == "rank1":
        u, m = b.arr((5, 1), nonneg=True), b.arr((5, 3), nonneg=True)
        return Call(hals_nnls, (u.T @ m).astype(b.dtype), (u.T @ u).astype(b.dtype), n_iter_max=5).form("size:rank1")
    u, m = b.arr((5, 3), nonneg=True), b.arr((5, 1), nonneg=True)
    return Call(hals_nnls, (u.T @ m).astype(b.dtype), (u.T @ u).astype(b.dtype), V=b.arr((3, 1), nonneg=True), n_iter_max=5).form("size:single_column")


@entry("regression.CPRegressor#size", ("single_sample", "rank1"), FLOATS)
def _(b, k):
    from tensorly.regression import CPRegressor

    def run(X, y, Xnew, weight_rank=2):
        r = CPRegressor(weight_rank=weight_rank, n_iter_max=IT, verbose=0, random_state=1).fit(X, y)
        return {"weight_tensor_": r.weight_tensor_, "predict": r.predict(Xnew)}
    if k == "single_sample":
        return Call(run, b.arr((1, 3, 2)), b.arr((1,)), b.arr((1, 3, 2))).form("size:single_sample")
    return Call(run, b.arr((8, 3, 2)), b.arr((8,)), b.arr((3, 3, 2)), weight_rank=1).form("size:rank1")


@entry("regression.TuckerRegressor#size", ("single_sample", "rank1"), FLOATS)
def _(b, k):
    from tensorly.regression import TuckerRegressor

    def run(X, y, Xnew, weight_ranks=None):
        r = TuckerRegressor(weight_ranks=weight_ranks or [2, 2], n_iter_max=IT, verbose=0, random_state=1).fit(X, y)
        return {"weight_tensor_": r.weight_tensor_, "predict": r.predict(Xnew)}
    if k == "single_sample":
        return Call(run, b.arr((1, 3, 2)), b.arr((1,)), b.arr((1, 3, 2))).form("size:single_sample")
    return Call(run, b.arr((8, 3, 2)), b.arr((8,)), b.arr((3, 3, 2)), weight_ranks=[1, 1]).form("size:rank1")


@entry("regression.CP_PLSR#size", ("one_component", "components_eq_dim", "two_samples"), FLOATS)
def _(b, k):
    from tensorly.regression import CP_PLSR

    def run(X, Y, n):
        r = CP_PLSR(n, n_iter_max=IT).fit(X, Y)
        return {"predict": r.predict(X), "transform": r.transform(X, Y)}
    if k == "two_samples":
        return Call(run, b.arr((2, 3, 2)), b.arr((2, 2)), 1).form("size:single_sample")
    return Call(run, b.arr((8, 3, 2)), b.arr((8, 2)), 1 if k == "one_component" else 2).form("size:rank1" if k == "one_component" else "size:rank_eq_dim")


@entry("metrics.MSE#size", ("single_sample",), FLOATS)
def _(b, k):
    from tensorly.metrics.regression import MSE
    return Call(MSE, b.arr((1,)), b.arr((1,))).form("size:single_sample")


@entry("tenalg.khatri_rao#size", ("single_column", "single_row"), ALLDT)
def _(b, k):
    if k == "single_row":
        return Call(tl().tenalg.khatri_rao, [b.arr((1, RANK)), b.arr((1, RANK))]).form("size:single_sample")
    return Call(tl().tenalg.khatri_rao, [b.arr((3, 1)), b.arr((4, 1)), b.arr((2, 1))]).form("size:single_column")


# ----------------------------------------------------------------------------- (6) return flags together, equivalent spellings
@entry("decomposition.parafac#flags", ("errors_callback", "errors_sparsity", "errors_callback_sparsity"), ALLDT)
def _(b, k):
    kw = dict(n_iter_max=IT, tol=1e-14, return_errors=True)
    if "callback" in k:
        kw["callback"] = lambda cp, err: None
    if "sparsity" in k:
        kw["sparsity"] = 0.2
    return Call(D().parafac, b.lowrank(SHAPE, RANK), RANK, **kw).form("flags:combined")


@entry("decomposition.sample_khatri_rao#flags", ("rows_indices",), FLOATS)
def _(b, k):
    return Call(D().sample_khatri_rao, b.factors(SHAPE, RANK), 4, indices_list=[[0, 1, 2, 0], [1, 3, 0, 2], [0, 1, 1, 0]],
                return_sampled_rows=True, random_state=1).form("flags:combined")


@entry("cp_tensor.cp_lstsq_grad#flags", ("loss_mask",), ALLDT)
def _(b, k):
    from tensorly.cp_tensor import cp_lstsq_grad
    return Call(cp_lstsq_grad, b.cp(SHAPE, RANK, "obj", "nonunit"), b.arr(SHAPE), return_loss=True, mask=b.mask(SHAPE)).form("flags:combined")


@entry("contrib.tensor_train_OI#flags", ("trajectory_errors", "trajectory_only", "errors_only", "neither"), FLOATS)
def _(b, k):
    from tensorly.contrib.decomposition import tensor_train_OI
    t, r = {"trajectory_errors": (True, True), "trajectory_only": (True, False), "errors_only": (False, True), "neither": (False, False)}[k]
    c = Call(tensor_train_OI, b.arr(SHAPE), (1, 2, 2, 1), n_iter=2, trajectory=t, return_errors=r).form("flags:combined")
    return c if t else c.raises()           # trajectory=False fails on the pinned tree (UnboundLocalError), independently of C15/C18


@entry("decomposition.robust_pca#flags", ("errors_mask",), FLOATS)
def _(b, k):
    return Call(D().robust_pca, b.arr(SHAPE), mask=b.mask(SHAPE), return_errors=True, n_iter_max=IT, verbose=0).form("flags:combined")


@entry("decomposition.tucker#flags", ("errors_mask_fixed",), ALLDT)
def _(b, k):
    return Call(D().tucker, b.lowrank(SHAPE, RANK), [2, 3, 2], return_errors=True, mask=b.mask(SHAPE), n_iter_max=IT, tol=0).form("flags:combined")


@entry("decomposition.non_negative_tucker_hals#flags", ("errors_normalize_sparsity",), FLOATS)
def _(b, k):
    return Call(D().non_negative_tucker_hals, b.lowrank(SHAPE, RANK, nonneg=True), [2, 3, 2], return_errors=True, normalize_factors=True,
                sparsity_coefficients=[0.1, 0.1, 0.1], core_sparsity_coefficient=0.1, n_iter_max=IT, tol=0).form("flags:combined")


@entry("decomposition.parafac2#flags", ("errors_normalize_nn",), FLOATS)
def _(b, k):
    return Call(D().parafac2, [b.arr((4, 3), nonneg=True) for _ in range(3)], RANK, return_errors=True, normalize_factors=True, nn_modes="all",
                n_iter_max=IT, tol=0, random_state=1, n_iter_parafac=2, linesearch=False).form("flags:combined")


@entry("decomposition.randomised_parafac#flags", ("errors_callback",), FLOATS)
def _(b, k):
    return Call(D().randomised_parafac, b.lowrank(SHAPE, RANK), RANK, 6, return_errors=True, callback=lambda *a: None, n_iter_max=IT,
                random_state=1, verbose=0).form("flags:combined")


@entry("decomposition.spellings", ("nn_modes_all_vs_list", "orthogonalise_int", "sparsity_int", "tucker_rank_int", "nonneg_svd_string", "verbose_true",
                                   "tt_rank_int", "normalize_one"), FLOATS)
def _(b, k):
    X = b.lowrank(SHAPE, RANK, nonneg=True)
    kw = dict(n_iter_max=IT, tol=0)
    if k == "nn_modes_all_vs_list":
        c = Call(D().non_negative_parafac_hals, X, RANK, nn_modes=[0, 1, 2], **kw)
    elif k == "orthogonalise_int":
        c = Call(D().parafac, X, RANK, orthogonalise=2, **kw)
    elif k == "sparsity_int":
        c = Call(D().parafac, X, RANK, sparsity=5, **kw)
    elif k == "tucker_rank_int":
        c = Call(D().tucker, X, 2, **kw)
    elif k == "nonneg_svd_string":
        c = Call(tl().tenalg.svd_interface, b.arr((5, 4), nonneg=True), n_eigenvecs=2, non_negative="nndsvd")
    elif k == "verbose_true":
        c = Call(D().non_negative_tucker_hals, X, [2, 3, 2], verbose=True, **kw)
    elif k == "tt_rank_int":
        c = Call(D().tensor_train, b.arr(SHAPE), 2)
    else:
        c = Call(D().parafac, X, RANK, normalize_factors=1, **kw)
    return c.form("spelling:equivalent")


# ----------------------------------------------------------------------------- (7) second entry points sharing a helper
def _method(name, builder, methods, dtypes=ALLDT):
    @entry(name, tuple(methods), dtypes)
    def _b(b, k, builder=builder, methods=methods):
        obj = builder(b)
        meth, args = methods[k]

        def call(o, *a):
            return getattr(o, meth)(*a)
        call.__name__ = meth
        return Call(call, obj, *[a(b) if callable(a) else a for a in args]).form("entry:method")
    return _b


_method("cp_tensor.CPTensor#methods", lambda b: b.cp(SHAPE, RANK, "obj", "nonunit"),
        {"to_tensor": ("to_tensor", ()), "to_vec": ("to_vec", ()), "to_unfolded": ("to_unfolded", (1,)), "norm": ("norm", ()),
         "cp_copy": ("cp_copy", ()), "mode_dot_default": ("mode_dot", (lambda b: b.arr((5, 4)), 1))})
_method("tucker_tensor.TuckerTensor#methods", lambda b: b.tucker(SHAPE, (2, 3, 2), "obj"),
        {"to_tensor": ("to_tensor", ()), "to_vec": ("to_vec", ()), "to_unfolded": ("to_unfolded", (1,)), "tucker_copy": ("tucker_copy", ()),
         "mode_dot_copy": ("mode_dot", (lambda b: b.arr((5, 4)), 1, False, True))})
_method("tt_tensor.TTTensor#methods", lambda b: b.tt(SHAPE, (1, 2, 2, 1), "obj"),
        {"to_tensor": ("to_tensor", ()), "to_vec": ("to_vec", ()), "to_unfolding": ("to_unfolding", (1,))})
_method("tr_tensor.TRTensor#methods", lambda b: b.tr(SHAPE, (2, 3, 2, 2), "obj"),
        {"to_tensor": ("to_tensor", ()), "to_vec": ("to_vec", ()), "to_unfolding": ("to_unfolding", (1,))})
_method("tt_matrix.TTMatrix#methods", lambda b: b.ttm("obj"),
        {"to_tensor": ("to_tensor", ()), "to_vec": ("to_vec", ()), "to_matrix": ("to_matrix", ()), "to_unfolding": ("to_unfolding", (1,))})
_method("parafac2_tensor.Parafac2Tensor#methods", lambda b: b.p2("obj", "nonunit", ragged=False),
        {"to_tensor": ("to_tensor", ()), "to_vec": ("to_vec", ()), "to_unfolded": ("to_unfolded", (1,))}, FLOATS)


@entry("decomposition.estimators#fit", ("CP", "CP_NN", "CP_NN_HALS", "Tucker", "TensorTrain", "TensorRing", "ConstrainedCP", "CPPower", "Parafac2"), FLOATS)
def _(b, k):
    """DecompositionMixin.fit (returns the estimator; the decomposition is stored on it) instead of fit_transform."""
    d = D()
    nonneg = k in ("CP_NN", "CP_NN_HALS", "ConstrainedCP")
    X = b.lowrank(SHAPE, RANK, nonneg=nonneg)
    opts = {}
    if k in ("CP", "CP_NN", "CP_NN_HALS", "ConstrainedCP"):
        opts = dict(init=b.cp(SHAPE, RANK, "obj", "nonunit", nonneg=nonneg), fixed_modes=[0, 2])

    def run(X, **kw):
        make = {"CP": lambda: d.CP(RANK, n_iter_max=IT, tol=0, **kw), "CP_NN": lambda: d.CP_NN(RANK, n_iter_max=IT, tol=0, **kw),
                "CP_NN_HALS": lambda: d.CP_NN_HALS(RANK, n_iter_max=IT, tol=0, **kw),
                "Tucker": lambda: d.Tucker([2, 3, 2], n_iter_max=IT, tol=0), "TensorTrain": lambda: d.TensorTrain([1, 2, 2, 1]),
                "TensorRing": lambda: d.TensorRing([1, 2, 2, 1]), "ConstrainedCP": lambda: d.ConstrainedCP(RANK, n_iter_max=IT, n_iter_max_inner=3, non_negative=True, **kw),
                "CPPower": lambda: d.CPPower(RANK, n_repeat=2, n_iteration=2),
                "Parafac2": lambda: d.Parafac2(RANK, n_iter_max=IT, tol=0, random_state=1, n_iter_parafac=2, return_errors=True)}[k]
        est = make().fit(X)
        return getattr(est, "decomposition_", None)
    if k == "Parafac2":
        return Call(run, [b.arr((4, 3)) for _ in range(3)]).form("entry:method")
    return Call(run, X, **opts).form("entry:method")


def _alias(name, getter, builder, dtypes=ALLDT):
    """The same function reached through its other public name (tensorly.* re-export / defining module)."""
    @entry(name, ("other_name",), dtypes)
    def _b(b, k, getter=getter, builder=builder):
        return builder(b, getter()).form("entry:alias")
    return _b


_alias("tenalg.svd_interface#toplevel", lambda: tl().svd_interface,
       lambda b, f: Call(f, b.arr((5, 4)), n_eigenvecs=2, mask=b.mask((5, 4)), n_iter_mask_imputation=2))
_alias("tenalg.truncated_svd#module", lambda: __import__("tensorly.tenalg.svd", fromlist=["x"]).truncated_svd, lambda b, f: Call(f, b.arr((5, 4)), 2))
_alias("cp_tensor.cp_to_tensor#module", lambda: __import__("tensorly.cp_tensor", fromlist=["x"]).cp_to_tensor,
       lambda b, f: Call(f, b.cp(SHAPE, RANK, "tuple", "nonunit"), mask=b.mask(SHAPE)))
_alias("tucker_tensor.tucker_to_tensor#module", lambda: __import__("tensorly.tucker_tensor", fromlist=["x"]).tucker_to_tensor,
       lambda b, f: Call(f, b.tucker(SHAPE, (2, 3, 2))))
_alias("tt_tensor.tt_to_tensor#module", lambda: __import__("tensorly.tt_tensor", fromlist=["x"]).tt_to_tensor, lambda b, f: Call(f, b.tt(SHAPE, (1, 2, 2, 1))))
_alias("tr_tensor.tr_to_tensor#module", lambda: __import__("tensorly.tr_tensor", fromlist=["x"]).tr_to_tensor, lambda b, f: Call(f, b.tr(SHAPE, (2, 3, 2, 2))))
_alias("tt_matrix.tt_matrix_to_tensor#toplevel", lambda: tl().tt_matrix_to_tensor, lambda b, f: Call(f, b.ttm("list")))
