"""Object-graph walkers shared by the C15 / C18 monitors (projection only, no verdicts).

walk_args   : argument object graph -> list of nodes (path, kind, object) ; digests per node
walk_out    : return value -> list of (path, kind, dtype name)

Slot = path into the object graph, a tuple of strings: ("args","0"), ("kwargs","init","factors","1").
Digest of an array  = sha256(dtype, shape, C-order bytes).
Digest of a container/object = *shallow*: type name + length + the scalar elements / attributes in place
(ints, floats, None, strings, by value) with a placeholder for every element that is a slot of its own
(array / container / object).  A change is therefore attributed to the most specific slot: a replaced
array shows up at the array's slot, an append / remove / scalar overwrite at the container's slot.
"""
import hashlib

import numpy as np

SCALARS = (int, float, complex, str, bool, type(None), np.generic, bytes)
MAXDEPTH = 7


def _h(*parts):
    h = hashlib.sha256()
    for p in parts:
        h.update(p if isinstance(p, bytes) else str(p).encode())
        h.update(b"|")
    return h.hexdigest()[:20]


def _scalar_repr(x):
    if isinstance(x, np.generic):
        return "%s:%s:%s" % (type(x).__name__, x.dtype.str, x.tobytes().hex())
    if isinstance(x, float):
        return "float:" + x.hex()
    return "%s:%r" % (type(x).__name__, x)


def is_opaque(x):
    """Objects that are not data: random generators (documented to advance), callables, modules."""
    return isinstance(x, (np.random.RandomState, np.random.Generator)) or callable(x) and not hasattr(x, "factors")


def array_digest(a):
    return _h("array", a.dtype.str, a.shape, np.ascontiguousarray(a).tobytes())


def owning_base(a):
    b = a
    while isinstance(getattr(b, "base", None), np.ndarray):
        b = b.base
    return b if b is not a else None


def _children(obj):
    """(kind, [(name, child)]) for containers/objects, None for leaves."""
    if isinstance(obj, (list, tuple)):
        return type(obj).__name__, [(str(i), c) for i, c in enumerate(obj)]
    if isinstance(obj, dict):
        return "dict", [(str(k), obj[k]) for k in sorted(obj, key=str)]
    if hasattr(obj, "__dict__") and not isinstance(obj, (type, np.ndarray)):
        return "obj:" + type(obj).__name__, [(k, v) for k, v in sorted(vars(obj).items())]
    return None


def shallow_digest(obj):
    if isinstance(obj, np.ndarray):
        return array_digest(obj)
    if isinstance(obj, SCALARS):
        return _h("scalar", _scalar_repr(obj))
    if is_opaque(obj):
        return _h("opaque", type(obj).__name__)
    ch = _children(obj)
    if ch is None:
        return _h("other", type(obj).__name__, repr(obj))
    kind, items = ch
    parts = [kind, len(items)]
    for name, c in items:
        if isinstance(c, SCALARS):
            parts.append(name + "=" + _scalar_repr(c))
        elif isinstance(c, np.ndarray):
            parts.append(name + "=<array>")
        elif is_opaque(c):
            parts.append(name + "=<opaque>")
        else:
            parts.append(name + "=<node>")
    return _h(*parts)


def node_kind(obj):
    if isinstance(obj, np.ndarray):
        return "array"
    if isinstance(obj, SCALARS):
        return "scalar"
    if is_opaque(obj):
        return "opaque"
    ch = _children(obj)
    return "other" if ch is None else ch[0].split(":")[0]


def walk(obj, path, out, depth=0, seen=None):
    """Append (path, kind, obj) for obj and every array/container/object reachable from it."""
    seen = set() if seen is None else seen
    out.append((path, node_kind(obj), obj))
    if isinstance(obj, np.ndarray):
        b = owning_base(obj)
        if b is not None:
            out.append((path + ("base",), "array", b))
        return
    if isinstance(obj, SCALARS) or is_opaque(obj) or depth >= MAXDEPTH or id(obj) in seen:
        return
    ch = _children(obj)
    if ch is None:
        return
    seen = seen | {id(obj)}
    for name, c in ch[1]:
        if isinstance(c, SCALARS) or is_opaque(c):
            continue            # part of the parent's shallow digest
        walk(c, path + (name,), out, depth + 1, seen)


def walk_args(args, kwargs):
    nodes = []
    for i, a in enumerate(args):
        walk(a, ("args", str(i)), nodes)
    for k in sorted(kwargs):
        walk(kwargs[k], ("kwargs", k), nodes)
    return nodes


class Interner:
    """sha digests -> small integers in order of first appearance (TLC only uses equality)."""

    def __init__(self):
        self.tab = {}

    def __call__(self, d):
        if d not in self.tab:
            self.tab[d] = len(self.tab) + 1
        return self.tab[d]


# ------------------------------------------------------------------ return values (C18)
LATTICE = {"bool": "bool", "float32": "float32", "float64": "float64", "complex64": "complex64", "complex128": "complex128"}


def dtype_name(dt):
    dt = np.dtype(dt)
    if dt.kind in "iu":
        return "int"
    return LATTICE.get(dt.name, dt.name)


def walk_out(obj, path=(), out=None, depth=0, seen=None):
    """(path, kind, dtype name) for every array (kind 'array') and scalar (kind 'scalar') reachable
    from a return value.  Python scalars are reported as pyfloat / pyint / pycomplex / pybool."""
    out = [] if out is None else out
    seen = set() if seen is None else seen
    if obj is None or isinstance(obj, (str, bytes)):
        return out
    if isinstance(obj, np.ndarray):
        out.append((path, "array", dtype_name(obj.dtype)))
        return out
    if isinstance(obj, np.generic):
        out.append((path, "scalar", dtype_name(obj.dtype)))
        return out
    if isinstance(obj, (bool, int, float, complex)):
        out.append((path, "scalar", "py" + type(obj).__name__))
        return out
    if is_opaque(obj) or depth >= MAXDEPTH or id(obj) in seen:
        return out
    ch = _children(obj)
    if ch is None:
        return out
    seen = seen | {id(obj)}
    for name, c in ch[1]:
        walk_out(c, path + (name,), out, depth + 1, seen)
    return out
