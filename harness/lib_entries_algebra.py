"""Registry part 1: tensorly base ops, backend index_update, tenalg (+svd, proximal), factorised tensors."""
import numpy as np

from .lib_entrypoints import ALLDT, ARR, FLOATS, RANK, SHAPE, Call, akind, entry, form_of

FORMS = ("tuple", "list", "obj", "tuple_tview", "obj_sview")
SEQ = ("list", "tuple", "list_tview", "list_sview")


def tl():
    import tensorly
    return tensorly


# ----------------------------------------------------------------------------- tensorly base
@entry("base.unfold", ARR + ("invalid",), ALLDT)
def _(b, k):
    if k == "invalid":
        return Call(tl().unfold, b.arr(SHAPE), 5).raises()
    return Call(tl().unfold, b.arr(SHAPE, k), 1)


@entry("base.fold", ARR + ("shape_list", "invalid"), ALLDT)
def _(b, k):
    if k == "invalid":
        return Call(tl().fold, b.arr((4, 6)), 1, (3, 4, 3)).raises()
    if k == "shape_list":       # fold re-orders a copy of the shape: the caller's list must stay as it is
        return Call(tl().fold, b.arr((4, 6)), 1, list(SHAPE))
    return Call(tl().fold, b.arr((4, 6), k), 1, SHAPE)


@entry("base.tensor_to_vec", ARR, ALLDT)
def _(b, k):
    return Call(tl().tensor_to_vec, b.arr(SHAPE, k))


@entry("base.vec_to_tensor", ("fresh", "sview"), ALLDT)
def _(b, k):
    return Call(tl().vec_to_tensor, b.arr((24,), k), list(SHAPE) if k == "sview" else SHAPE)


@entry("base.partial_unfold", ARR, ALLDT)
def _(b, k):
    return Call(tl().partial_unfold, b.arr((2,) + SHAPE, k), mode=1, skip_begin=1, skip_end=0, ravel_tensors=(k == "sview"))


@entry("base.partial_fold", ARR, ALLDT)
def _(b, k):
    return Call(tl().partial_fold, b.arr((2, 4, 6), k), 1, [2] + list(SHAPE) if k == "sview" else (2,) + SHAPE, skip_begin=1)


@entry("base.partial_tensor_to_vec", ARR, ALLDT)
def _(b, k):
    return Call(tl().partial_tensor_to_vec, b.arr((2,) + SHAPE, k), skip_begin=1)


@entry("base.partial_vec_to_tensor", ARR, ALLDT)
def _(b, k):
    return Call(tl().partial_vec_to_tensor, b.arr((2, 24), k), (2,) + SHAPE, skip_begin=1)


@entry("base.matricize", ARR + ("rows_only", "tuples", "invalid"), ALLDT)
def _(b, k):
    from tensorly.base import matricize
    if k == "invalid":
        return Call(matricize, b.arr(SHAPE), [0, 7], [1]).raises()
    if k == "rows_only":
        return Call(matricize, b.arr(SHAPE), [2, 0])
    if k == "tuples":
        return Call(matricize, b.arr(SHAPE), (1,), (2, 0))
    return Call(matricize, b.arr(SHAPE, k), [2, 0], [1])


@entry("backend.index_update", ARR, ALLDT, inplace={"": [["args", "0"], ["kwargs", "tensor"]]})
def _(b, k):
    t = tl()
    return Call(t.index_update, b.arr((3, 4), k), t.index[:, 1], b.arr((3,)))


# ----------------------------------------------------------------------------- tenalg
@entry("tenalg.mode_dot", ARR + ("vector", "transpose", "invalid"), ALLDT, tenalg=True)
def _(b, k):
    f = tl().tenalg.mode_dot
    kk = k.split("@")[0]
    if kk == "invalid":
        return Call(f, b.arr(SHAPE), b.arr((5, 7)), 1).raises()
    if kk == "vector":
        return Call(f, b.arr(SHAPE), b.arr((4,)), 1)
    if kk == "transpose":
        return Call(f, b.arr(SHAPE), b.arr((4, 5), "tview"), 1, transpose=True)
    return Call(f, b.arr(SHAPE, k), b.arr((5, 4), k), 1)


@entry("tenalg.multi_mode_dot", SEQ + ("modes", "modes_tuple", "modes_vectors", "skip", "transpose"), ALLDT, tenalg=True)
def _(b, k):
    f = tl().tenalg.multi_mode_dot
    kk = k.split("@")[0]
    if kk == "modes":
        return Call(f, b.arr(SHAPE), [b.arr((2, 2)), b.arr((5, 3))], modes=[2, 0])
    if kk == "modes_tuple":
        return Call(f, b.arr(SHAPE), (b.arr((2, 2)), b.arr((5, 3))), modes=(2, 0))
    if kk == "modes_vectors":       # contracting vectors shifts the remaining modes: the modes list is consulted repeatedly
        return Call(f, b.arr(SHAPE), [b.arr((3,)), b.arr((5, 4)), b.arr((2,))], modes=[0, 1, 2])
    if kk == "skip":
        return Call(f, b.arr(SHAPE), [b.arr((5, s)) for s in SHAPE], skip=1)
    if kk == "transpose":
        return Call(f, b.arr(SHAPE), [b.arr((s, 2)) for s in SHAPE], transpose=True)
    ms = [b.arr((2, s), akind(k)) for s in SHAPE]
    return Call(f, b.arr(SHAPE, akind(k)), tuple(ms) if form_of(kk) == "tuple" else ms)


@entry("tenalg.kronecker", SEQ + ("skip", "reverse", "vectors"), ALLDT, tenalg=True)
def _(b, k):
    f = tl().tenalg.kronecker
    kk = k.split("@")[0]
    ms = [b.arr((2, 3), akind(k)), b.arr((3, 2), akind(k)), b.arr((2, 2), akind(k))]
    if kk == "skip":
        return Call(f, ms, skip_matrix=1)
    if kk == "reverse":
        return Call(f, ms, reverse=True)
    if kk == "vectors":
        return Call(f, [b.arr((3,)), b.arr((2,))])
    return Call(f, tuple(ms) if form_of(kk) == "tuple" else ms)


@entry("tenalg.khatri_rao", SEQ + ("weights", "mask", "mask_weights", "skip", "skip_mask", "vectors", "two", "invalid"), ALLDT, tenalg=True)
def _(b, k):
    f = tl().tenalg.khatri_rao
    kk = k.split("@")[0]
    ms = b.factors(SHAPE, RANK, akind(k))
    w = (np.arange(RANK) + 2).astype(b.dtype)
    if kk == "weights":
        return Call(f, ms, weights=w)
    if kk == "mask":
        return Call(f, ms, mask=b.mask(SHAPE))
    if kk == "mask_weights":
        return Call(f, ms, weights=w, mask=b.mask(SHAPE))
    if kk == "skip":
        return Call(f, ms, skip_matrix=1)
    if kk == "skip_mask":
        return Call(f, ms, skip_matrix=0, mask=b.mask(SHAPE[1:]))
    if kk == "invalid":
        return Call(f, [b.arr((3, 2)), b.arr((4, 3))]).raises()
    if kk == "vectors":             # vectors are reshaped to one-column matrices
        return Call(f, [b.arr((3,)), b.arr((4,)), b.arr((2,))])
    if kk == "two":
        return Call(f, ms[:2], weights=w)
    return Call(f, tuple(ms) if form_of(kk) == "tuple" else ms)


@entry("tenalg.inner", ARR + ("n_modes", "vectors"), ALLDT, tenalg=True)
def _(b, k):
    f = tl().tenalg.inner
    if k.split("@")[0] == "n_modes":
        return Call(f, b.arr((3, 4, 2)), b.arr((4, 2, 5)), n_modes=2)
    if k.split("@")[0] == "vectors":
        return Call(f, b.arr((5,)), b.arr((5,)))
    return Call(f, b.arr(SHAPE, k), b.arr(SHAPE, k))


@entry("tenalg.outer", SEQ, ALLDT, tenalg=True)
def _(b, k):
    kk = k.split("@")[0]
    ts = [b.arr((3,), akind(k)), b.arr((2, 2), akind(k)), b.arr((2,), akind(k))]
    return Call(tl().tenalg.outer, tuple(ts) if form_of(kk) == "tuple" else ts)


@entry("tenalg.batched_outer", SEQ, ALLDT, tenalg=True)
def _(b, k):
    kk = k.split("@")[0]
    ts = [b.arr((3, 2), akind(k)), b.arr((3, 4), akind(k)), b.arr((3, 2, 2), akind(k))]
    return Call(tl().tenalg.batched_outer, tuple(ts) if form_of(kk) == "tuple" else ts)


@entry("tenalg.tensordot", ARR + ("batched", "modes_lists", "batched_lists", "modes_int"), ALLDT, tenalg=True)
def _(b, k):
    f = tl().tenalg.tensordot
    if k.split("@")[0] == "batched":
        return Call(f, b.arr((3, 4, 2)), b.arr((3, 4, 5)), modes=(1, 1), batched_modes=(0, 0))
    if k.split("@")[0] == "modes_lists":
        return Call(f, b.arr((3, 4, 2)), b.arr((2, 4, 5)), modes=[[2, 1], [0, 1]])
    if k.split("@")[0] == "batched_lists":
        return Call(f, b.arr((3, 4, 2)), b.arr((3, 4, 5)), modes=[[1], [1]], batched_modes=[[0], [0]])
    if k.split("@")[0] == "modes_int":
        return Call(f, b.arr((3, 4, 2)), b.arr((4, 2, 5)), modes=2)
    return Call(f, b.arr((3, 4, 2), k), b.arr((4, 2, 5), k), modes=([1, 2], [0, 1]))


@entry("tenalg.unfolding_dot_khatri_rao", FORMS + ("weights", "noweights", "matrix"), ALLDT, tenalg=True)
def _(b, k):
    f = tl().tenalg.unfolding_dot_khatri_rao
    kk = k.split("@")[0]
    if kk == "weights":
        return Call(f, b.arr(SHAPE), b.cp(SHAPE, RANK, "tuple", "nonunit"), 0)
    if kk == "noweights":
        return Call(f, b.arr(SHAPE), b.cp(SHAPE, RANK, "tuple", "none"), 2)
    if kk == "matrix":
        return Call(f, b.arr((4, 3)), b.cp((4, 3), RANK, "tuple", "nonunit"), 0)
    return Call(f, b.arr(SHAPE, akind(k)), b.cp(SHAPE, RANK, form_of(kk), "ones", akind(k)), 1)


@entry("tenalg.unfolding_dot_khatri_rao_memory", ("tuple", "obj", "tuple_tview"), ALLDT)
def _(b, k):
    from tensorly.tenalg.core_tenalg.mttkrp import unfolding_dot_khatri_rao_memory
    return Call(unfolding_dot_khatri_rao_memory, b.arr(SHAPE, akind(k)), b.cp(SHAPE, RANK, form_of(k), "nonunit", akind(k)), 1)


@entry("tenalg.higher_order_moment", ARR, FLOATS, tenalg=True)
def _(b, k):
    return Call(tl().tenalg.higher_order_moment, b.arr((5, 3), k), 3)


@entry("tenalg.tt_matrix_to_tensor", ("list", "tuple", "obj", "list_tview"), ALLDT, tenalg=True)
def _(b, k):
    return Call(tl().tenalg._tt_matrix_to_tensor, b.ttm(form_of(k.split("@")[0]), akind(k)))


# ----------------------------------------------------------------------------- tenalg.svd
SVD_OUT = [(["1"], "real")]


@entry("tenalg.svd_interface", ["%s_%s" % (m, a) for m in ("truncated_svd", "symeig_svd", "randomized_svd") for a in ARR]
       + ["nonneg", "nonneg_nndsvda", "mask", "noflip", "vflip", "wide", "invalid"], ALLDT, out=SVD_OUT)
def _(b, k):
    f = tl().tenalg.svd_interface
    for m in ("truncated_svd", "symeig_svd", "randomized_svd"):
        if k.startswith(m):
            kw = {"random_state": 3} if m == "randomized_svd" else {}
            return Call(f, b.arr((5, 4), akind(k)), method=m, n_eigenvecs=3, **kw)
    if k == "nonneg":
        return Call(f, b.arr((5, 4), nonneg=not b.cplx), n_eigenvecs=2, non_negative=True)
    if k == "nonneg_nndsvda":
        return Call(f, b.arr((5, 4), nonneg=not b.cplx), n_eigenvecs=2, non_negative="nndsvda")
    if k == "mask":
        return Call(f, b.arr((5, 4)), n_eigenvecs=2, mask=b.mask((5, 4)), n_iter_mask_imputation=2)
    if k == "noflip":
        return Call(f, b.arr((5, 4)), n_eigenvecs=2, flip_sign=False)
    if k == "vflip":
        return Call(f, b.arr((5, 4)), n_eigenvecs=2, u_based_flip_sign=False)
    if k == "wide":
        return Call(f, b.arr((3, 6)), n_eigenvecs=5)
    return Call(f, b.arr((5, 4)), method="no_such_svd").raises()


@entry("tenalg.truncated_svd", ARR + ("full", "invalid"), ALLDT, out=SVD_OUT)
def _(b, k):
    f = tl().tenalg.truncated_svd
    if k == "full":
        return Call(f, b.arr((4, 5)))
    if k == "invalid":
        return Call(f, b.arr(SHAPE), 2).raises()
    return Call(f, b.arr((5, 4), k), 2)


@entry("tenalg.symeig_svd", ARR + ("wide",), ALLDT, out=SVD_OUT)
def _(b, k):
    from tensorly.tenalg.svd import symeig_svd
    if k == "wide":
        return Call(symeig_svd, b.arr((3, 5)), 2)
    return Call(symeig_svd, b.arr((5, 4), k), 2)


@entry("tenalg.randomized_svd", ARR + ("wide",), ALLDT, out=SVD_OUT)
def _(b, k):
    from tensorly.tenalg.svd import randomized_svd
    if k == "wide":
        return Call(randomized_svd, b.arr((3, 6)), 2, random_state=1)
    return Call(randomized_svd, b.arr((6, 4), k), 2, random_state=1)


@entry("tenalg.randomized_range_finder", ARR, ALLDT)
def _(b, k):
    from tensorly.tenalg.svd import randomized_range_finder
    return Call(randomized_range_finder, b.arr((6, 4), k), 2, n_iter=1, random_state=1)


@entry("tenalg.svd_flip", ARR + ("vbased",), ALLDT)
def _(b, k):
    from tensorly.tenalg.svd import svd_flip
    if k == "vbased":
        return Call(svd_flip, b.arr((5, 3)), b.arr((3, 4)), u_based_decision=False)
    return Call(svd_flip, b.arr((5, 3), k), b.arr((3, 4), k))


@entry("tenalg.make_svd_non_negative", ARR + ("nndsvda", "nndsvdar"), FLOATS, out=SVD_OUT)
def _(b, k):
    from tensorly.tenalg.svd import make_svd_non_negative
    a = b.arr((5, 4), akind(k), nonneg=True)
    U, S, V = np.linalg.svd(np.asarray(a, dtype="float64"), full_matrices=False)
    U, S, V = [np.ascontiguousarray(x[..., :3] if i == 0 else (x[:3] if i == 1 else x[:3, :])).astype(b.dtype) for i, x in enumerate((U, S, V))]
    nn = {"nndsvda": "nndsvda", "nndsvdar": "nndsvd"}.get(k, True)
    return Call(make_svd_non_negative, a, U, S, V, nntype=nn)


# ----------------------------------------------------------------------------- tenalg.proximal
def _prox(name, params, kinds=ARR + ("vector", "vector_sview", "column"), dtypes=FLOATS, shape=(4, 3), nonneg=False):
    @entry("proximal." + name, kinds, dtypes)
    def _b(b, k, name=name, params=params, shape=shape, nonneg=nonneg):
        import tensorly.tenalg.proximal as P
        if k.startswith("vector"):          # 1-D input: several operators reshape it (a view) before working
            return Call(getattr(P, name), b.arr((5,), akind(k), nonneg), *params)
        if k == "column":
            return Call(getattr(P, name), b.arr((5, 1), "fresh", nonneg), *params)
        return Call(getattr(P, name), b.arr(shape, k, nonneg), *params)
    return _b


_prox("smoothness_prox", (0.5,))
_prox("monotonicity_prox", ())
_prox("unimodality_prox", (), nonneg=True)
_prox("l2_square_prox", (0.5,))
_prox("l2_prox", (0.5,))
_prox("normalized_sparsity_prox", (2,))
_prox("soft_sparsity_prox", (0.8,))
_prox("simplex_prox", (1.0,))
_prox("hard_thresholding", (5,))
_prox("soft_thresholding", (0.3,))
_prox("svd_thresholding", (0.4,), kinds=ARR)
_prox("procrustes", (), kinds=ARR)

PROX_KW = [("non_negative", True), ("l1_reg", 0.2), ("l2_reg", 0.2), ("l2_square_reg", 0.2), ("unimodality", True),
           ("normalize", True), ("simplex", 1.0), ("normalized_sparsity", 2), ("soft_sparsity", 0.8),
           ("smoothness", 0.3), ("monotonicity", True), ("hard_sparsity", 5)]


@entry("proximal.monotonicity_prox_decreasing", ARR)
def _(b, k):
    from tensorly.tenalg.proximal import monotonicity_prox
    return Call(monotonicity_prox, b.arr((4, 3), k), decreasing=True)


@entry("proximal.soft_thresholding_array", ARR)
def _(b, k):
    from tensorly.tenalg.proximal import soft_thresholding
    return Call(soft_thresholding, b.arr((4, 3), k), b.arr((4, 3), k, nonneg=True))


@entry("proximal.proximal_operator", [n for n, _ in PROX_KW] + ["tview_l1_reg", "sview_non_negative", "dict", "list", "invalid"])
def _(b, k):
    from tensorly.tenalg.proximal import proximal_operator
    kw = dict(PROX_KW)
    if k in kw:
        return Call(proximal_operator, b.arr((4, 3), nonneg=(k == "unimodality")), **{k: kw[k]})
    if k == "tview_l1_reg":
        return Call(proximal_operator, b.arr((4, 3), "tview"), l1_reg=0.2)
    if k == "sview_non_negative":
        return Call(proximal_operator, b.arr((4, 3), "sview"), non_negative=True)
    if k == "dict":
        return Call(proximal_operator, b.arr((4, 3)), l1_reg={0: 0.1, 1: 0.2}, n_const=3, order=1)
    if k == "list":
        return Call(proximal_operator, b.arr((4, 3)), l2_reg=[0.1, 0.2, 0.3], n_const=3, order=2)
    return Call(proximal_operator, b.arr((4, 3)), non_negative=True, l1_reg=0.1).raises()


@entry("proximal.validate_constraints", ("scalar", "list", "dict", "invalid"))
def _(b, k):
    from tensorly.tenalg.proximal import validate_constraints
    if k == "scalar":
        return Call(validate_constraints, non_negative=True, n_const=3)
    if k == "list":
        return Call(validate_constraints, l1_reg=[0.1, 0.2, 0.3], n_const=3)
    if k == "dict":
        return Call(validate_constraints, simplex={0: 1.0, 2: 2.0}, n_const=3)
    return Call(validate_constraints, non_negative=True, unimodality=True, n_const=3).raises()


# ----------------------------------------------------------------------------- CP tensors
CPW = ("weights_nonunit", "weights_none", "obj_weights_nonunit", "list_weights_nonunit")


def _cpkind(b, k, shape=SHAPE, rank=RANK, nonneg=False):
    if k == "weights_nonunit":
        return b.cp(shape, rank, "tuple", "nonunit", nonneg=nonneg)
    if k in ("obj_weights_nonunit", "list_weights_nonunit"):
        return b.cp(shape, rank, form_of(k), "nonunit", nonneg=nonneg)
    if k == "weights_none":
        return b.cp(shape, rank, "tuple", "none", nonneg=nonneg)
    return b.cp(shape, rank, form_of(k), "ones", akind(k), nonneg=nonneg)


def _simple_cp(name, extra=(), out=None, kinds=FORMS + CPW, dtypes=ALLDT):
    @entry("cp_tensor." + name, kinds, dtypes, out=out)
    def _b(b, k, name=name, extra=extra):
        import tensorly.cp_tensor as C
        return Call(getattr(C, name), _cpkind(b, k), *extra)
    return _b


_simple_cp("cp_to_tensor")


@entry("cp_tensor.cp_to_tensor_shapes", ("matrix", "single_factor", "rank1_vectors"), ALLDT)
def _(b, k):
    if k == "matrix":
        return Call(tl().cp_to_tensor, b.cp((4, 3), RANK, "tuple", "nonunit"))
    if k == "single_factor":
        return Call(tl().cp_to_tensor, b.cp((4,), RANK, "tuple", "nonunit"))
    return Call(tl().cp_to_tensor, (np.ones(1, dtype=b.dtype), [b.arr((3,)), b.arr((4,)), b.arr((2,))])).raises()   # 1-D factors pass validation but not the conversion


_simple_cp("cp_to_unfolded", (1,))
_simple_cp("cp_to_vec")
_simple_cp("cp_norm")
_simple_cp("cp_normalize", out=[(["weights"], "real")])
_simple_cp("cp_flip_sign", dtypes=FLOATS)


@entry("cp_tensor.cp_to_tensor_mask", ("tuple", "list", "obj", "tuple_tuple"), ALLDT)
def _(b, k):
    return Call(tl().cp_to_tensor, b.cp(SHAPE, RANK, form_of(k)), mask=b.mask(SHAPE))


@entry("cp_tensor.cp_flip_sign_mode", ("tuple", "obj"))
def _(b, k):
    from tensorly.cp_tensor import cp_flip_sign
    return Call(cp_flip_sign, b.cp(SHAPE, RANK, form_of(k), "nonunit"), mode=1, func=tl().sum)


@entry("cp_tensor.cp_permute_factors", ("single", "list", "list2"), out=[(["1"], "int")])
def _(b, k):
    from tensorly.cp_tensor import cp_permute_factors
    ref = b.cp(SHAPE, 3, "obj")
    others = []
    for _i in range(2):
        o = b.cp(SHAPE, 3, "obj", "nonunit")
        others.append(o)
    if k == "single":
        return Call(cp_permute_factors, ref, others[0])
    return Call(cp_permute_factors, ref, others[:1] if k == "list" else others)


@entry("cp_tensor.cp_mode_dot", ["%s_copy%s" % (f, c) for f in ("obj", "tuple") for c in ("True", "False")]
       + ["vector_copyTrue", "vector_copyFalse", "keepdim_copyTrue", "invalid_copyTrue", "invalid_copyFalse"], ALLDT,
       inplace={"copy=False": [["args", "0", "factors"], ["args", "0", "1"], ["args", "0", "shape"],
                               ["kwargs", "cp_tensor", "factors"], ["kwargs", "cp_tensor", "1"], ["kwargs", "cp_tensor", "shape"]]})
def _(b, k):
    f = tl().cp_mode_dot
    copy = k.endswith("True")
    opt = "copy=%s" % copy
    cp = b.cp(SHAPE, RANK, "tuple" if k.startswith("tuple") else "obj", "nonunit")
    if k.startswith("vector"):
        return Call(f, cp, b.arr((4,)), 1, copy=copy).option(opt)
    if k.startswith("keepdim"):
        return Call(f, cp, b.arr((4,)), 1, keep_dim=True, copy=copy).option(opt)
    if k.startswith("invalid"):
        return Call(f, cp, b.arr((5, 7)), 1, copy=copy).option(opt).raises()
    return Call(f, cp, b.arr((5, 4)), 1, copy=copy).option(opt)


@entry("cp_tensor.CPTensor.mode_dot", ("copyTrue", "copyFalse"), ALLDT,
       inplace={"copy=False": [["args", "0", "factors"], ["args", "0", "shape"], ["kwargs", "self", "factors"], ["kwargs", "self", "shape"]]})
def _(b, k):
    from tensorly.cp_tensor import CPTensor
    copy = k.endswith("True")
    return Call(CPTensor.mode_dot, b.cp(SHAPE, RANK, "obj", "nonunit"), b.arr((5, 4)), 1, copy=copy).option("copy=%s" % copy)


@entry("cp_tensor.cp_lstsq_grad", ("tuple", "obj", "mask", "loss", "tuple_tview"), ALLDT)
def _(b, k):
    from tensorly.cp_tensor import cp_lstsq_grad
    if k == "mask":
        return Call(cp_lstsq_grad, b.cp(SHAPE, RANK), b.arr(SHAPE), mask=b.mask(SHAPE))
    if k == "loss":
        return Call(cp_lstsq_grad, b.cp(SHAPE, RANK), b.arr(SHAPE), return_loss=True)
    return Call(cp_lstsq_grad, b.cp(SHAPE, RANK, form_of(k), "ones", akind(k)), b.arr(SHAPE, akind(k)))


@entry("cp_tensor.CPTensor", ("tuple", "list", "weights_none", "invalid"), ALLDT)
def _(b, k):
    from tensorly.cp_tensor import CPTensor
    if k == "invalid":
        return Call(CPTensor, (None, [b.arr((3, 2)), b.arr((4, 3))])).raises()
    return Call(CPTensor, _cpkind(b, k))


@entry("cp_tensor.CPTensor.normalize", ("obj",), ALLDT, inplace={"": [["args", "0", "weights"], ["args", "0", "factors"]]},
       out=[(["weights"], "real")])
def _(b, k):
    from tensorly.cp_tensor import CPTensor

    def normalize(cp):
        cp.normalize()
        return cp
    return Call(normalize, b.cp(SHAPE, RANK, "obj", "nonunit"))


# ----------------------------------------------------------------------------- Tucker tensors
TRANK = (2, 3, 2)


def _simple_tucker(name, extra=(), kw=None, out=None, dtypes=ALLDT):
    @entry("tucker_tensor." + name, FORMS, dtypes, out=out)
    def _b(b, k, name=name, extra=extra, kw=kw):
        import tensorly.tucker_tensor as C
        return Call(getattr(C, name), b.tucker(SHAPE, TRANK, form_of(k), akind(k)), *extra, **(kw or {}))
    return _b


_simple_tucker("tucker_to_tensor")
_simple_tucker("tucker_to_unfolded", (1,))
_simple_tucker("tucker_to_vec")
_simple_tucker("tucker_normalize")


@entry("tucker_tensor.tucker_to_tensor_opts", ("skip", "transpose", "modes"), ALLDT)
def _(b, k):
    f = tl().tucker_to_tensor
    if k == "skip":
        return Call(f, b.tucker(SHAPE, TRANK), skip_factor=1)
    if k == "transpose":
        return Call(f, (b.arr(SHAPE), [b.arr((s, r)) for s, r in zip(SHAPE, TRANK)]), transpose_factors=True)
    return Call(f, (b.arr(SHAPE), [b.arr((5, 3)), b.arr((5, 2))]), modes=[0, 2])


@entry("tucker_tensor.tucker_mode_dot", ["%s_copy%s" % (f, c) for f in ("obj", "tuple") for c in ("True", "False")]
       + ["vector_copyTrue", "vector_copyFalse", "invalid_copyFalse"], ALLDT,
       inplace={"copy=False": [["args", "0", "factors"], ["args", "0", "1"], ["kwargs", "tucker_tensor", "factors"], ["kwargs", "tucker_tensor", "1"]]})
def _(b, k):
    f = tl().tucker_mode_dot
    copy = k.endswith("True")
    opt = "copy=%s" % copy
    tk = b.tucker(SHAPE, TRANK, "tuple" if k.startswith("tuple") else "obj")
    if k.startswith("vector"):
        return Call(f, tk, b.arr((4,)), 1, copy=copy).option(opt)
    if k.startswith("invalid"):
        return Call(f, tk, b.arr((5, 7)), 1, copy=copy).option(opt).raises()
    return Call(f, tk, b.arr((5, 4)), 1, copy=copy).option(opt)


@entry("tucker_tensor.TuckerTensor", ("tuple", "list", "invalid"), ALLDT)
def _(b, k):
    from tensorly.tucker_tensor import TuckerTensor
    if k == "invalid":
        return Call(TuckerTensor, (b.arr((2, 2)), [b.arr((3, 2)), b.arr((4, 3))])).raises()
    return Call(TuckerTensor, b.tucker(SHAPE, TRANK, form_of(k)))


# ----------------------------------------------------------------------------- TT / TR / TT-matrix
TTR = (1, 2, 2, 1)
TRR = (2, 3, 2, 2)
TFORMS = ("list", "tuple", "obj", "list_tview", "list_sview")


def _simple_tt(mod, name, builder, rank, extra=(), kw=None):
    @entry("%s.%s" % (mod, name), TFORMS, ALLDT)
    def _b(b, k, mod=mod, name=name, builder=builder, rank=rank, extra=extra, kw=kw):
        import importlib
        m = importlib.import_module("tensorly." + mod)
        return Call(getattr(m, name), getattr(b, builder)(SHAPE, rank, form_of(k), akind(k)), *extra, **(kw or {}))
    return _b


_simple_tt("tt_tensor", "tt_to_tensor", "tt", TTR)
_simple_tt("tt_tensor", "tt_to_unfolded", "tt", TTR, (1,))
_simple_tt("tt_tensor", "tt_to_vec", "tt", TTR)
_simple_tt("tt_tensor", "pad_tt_rank", "tt", TTR, kw={"n_padding": 2})
_simple_tt("tr_tensor", "tr_to_tensor", "tr", TRR)
_simple_tt("tr_tensor", "tr_to_unfolded", "tr", TRR, (1,))
_simple_tt("tr_tensor", "tr_to_vec", "tr", TRR)


@entry("tt_tensor.pad_tt_rank_boundaries", ("list", "obj"), ALLDT)
def _(b, k):
    return Call(tl().pad_tt_rank, b.tt(SHAPE, TTR, form_of(k)), n_padding=1, pad_boundaries=True)


@entry("tt_tensor.TTTensor", ("list", "tuple", "invalid"), ALLDT)
def _(b, k):
    from tensorly.tt_tensor import TTTensor
    if k == "invalid":
        return Call(TTTensor, [b.arr((1, 3, 2)), b.arr((3, 4, 1))]).raises()
    return Call(TTTensor, b.tt(SHAPE, TTR, form_of(k)))


@entry("tr_tensor.TRTensor", ("list", "tuple", "invalid"), ALLDT)
def _(b, k):
    from tensorly.tr_tensor import TRTensor
    if k == "invalid":
        return Call(TRTensor, [b.arr((1, 3, 2)), b.arr((3, 4, 2))]).raises()
    return Call(TRTensor, b.tr(SHAPE, TRR, form_of(k)))


def _simple_ttm(name, extra=()):
    @entry("tt_matrix." + name, ("list", "tuple", "obj", "list_tview"), ALLDT)
    def _b(b, k, name=name, extra=extra):
        import tensorly.tt_matrix as M
        return Call(getattr(M, name), b.ttm(form_of(k), akind(k)), *extra)
    return _b


_simple_ttm("tt_matrix_to_tensor")
_simple_ttm("tt_matrix_to_matrix")
_simple_ttm("tt_matrix_to_unfolded", (1,))
_simple_ttm("tt_matrix_to_vec")


# ----------------------------------------------------------------------------- PARAFAC2 tensors
P2FORMS = ("tuple", "list", "obj", "weights_none", "weights_nonunit", "obj_weights_nonunit", "list_weights_nonunit")


def _p2kind(b, k, ragged=True):
    if k == "weights_none":
        return b.p2("tuple", "none", ragged=ragged)
    if k.endswith("weights_nonunit"):       # non-unit weights: the conversions must scale a copy, not the caller's factor
        return b.p2(form_of(k) if "_" in k[:5] else "tuple", "nonunit", ragged=ragged)
    return b.p2(form_of(k), ragged=ragged)


def _simple_p2(name, extra=(), kw=None, out=None, kinds=P2FORMS, ragged=True):
    @entry("parafac2_tensor." + name, kinds, FLOATS, out=out)
    def _b(b, k, name=name, extra=extra, kw=kw, ragged=ragged):
        import tensorly.parafac2_tensor as M
        return Call(getattr(M, name), _p2kind(b, k, ragged), *extra, **(kw or {}))
    return _b


_simple_p2("parafac2_to_slice", (1,))
_simple_p2("parafac2_to_slices")
_simple_p2("parafac2_to_unfolded", (1,), ragged=False)
_simple_p2("parafac2_normalise")
_simple_p2("apply_parafac2_projections")


@entry("parafac2_tensor.parafac2_to_tensor", P2FORMS + ("ragged",), FLOATS)
def _(b, k):
    from tensorly.parafac2_tensor import parafac2_to_tensor
    if k == "ragged":           # slices of different lengths are zero padded
        return Call(parafac2_to_tensor, b.p2("tuple", "nonunit", ragged=True))
    return Call(parafac2_to_tensor, _p2kind(b, k, ragged=False))


@entry("parafac2_tensor.parafac2_to_vec", P2FORMS, FLOATS)
def _(b, k):
    from tensorly.parafac2_tensor import parafac2_to_vec
    return Call(parafac2_to_vec, _p2kind(b, k, ragged=False))


@entry("parafac2_tensor.Parafac2Tensor.from_CPTensor", ("tuple", "obj", "p2_ok", "weights_nonunit", "invalid"), FLOATS)
def _(b, k):
    from tensorly.parafac2_tensor import Parafac2Tensor
    if k == "p2_ok":
        return Call(Parafac2Tensor.from_CPTensor, b.p2("tuple"), parafac2_tensor_ok=True)
    if k == "invalid":
        return Call(Parafac2Tensor.from_CPTensor, b.p2("tuple")).raises()
    if k == "weights_nonunit":
        return Call(Parafac2Tensor.from_CPTensor, b.cp((3, 4, 3), RANK, "obj", "nonunit"))
    return Call(Parafac2Tensor.from_CPTensor, b.cp((3, 4, 3), RANK, form_of(k)))


@entry("parafac2_tensor.Parafac2Tensor", ("tuple", "list", "invalid"), FLOATS)
def _(b, k):
    from tensorly.parafac2_tensor import Parafac2Tensor
    if k == "invalid":
        w, fs, projs = b.p2("tuple")
        return Call(Parafac2Tensor, (w, fs, projs[:-1])).raises()
    return Call(Parafac2Tensor, b.p2(form_of(k)))
