"""Registry of public tensorly entry points shared by the C15 (ownership) and C18 (dtype) monitors.

An *entry* is a public function / class wrapper; a *kind* names the way its arguments are built
(fresh array / transposed view / sliced view; tuple / list / wrapper object; mask; fixed-mode list;
per-mode coefficient list; user initialisation; a deliberately invalid variant that raises ...).
`cases(dtypes)` enumerates (entry, kind, dtype); `build(case)` returns a `Call` (callable + argument
objects) built deterministically from `seed`.  Tensors are tiny and iteration caps small.

Metadata transcribed from the docs (the SPECS hold the authoritative tables; the trace specs check
that the declarations here agree with them):
  inplace : {option-string: [slot path prefixes documented as updated in place]}      (C15)
  out     : [(output path prefix, kind)] exceptions to "same dtype as the input"      (C18)
            kinds: "real" (real-valued quantity: real counterpart of a complex input allowed),
                   "float64" (documented always double), "int" (index / count output), "free".
Nothing in this file decides a verdict.
"""
import contextlib
import io

import numpy as np

FLOATS = ("float32", "float64")
ALLDT = ("float32", "float64", "complex128")
ARR = ("fresh", "tview", "sview")

ENTRIES = {}


class Entry:
    def __init__(self, name, group, kinds, dtypes, build, inplace, out, tenalg):
        self.name, self.group, self.kinds, self.dtypes = name, group, tuple(kinds), tuple(dtypes)
        self.build, self.inplace, self.out, self.tenalg = build, inplace or {}, list(out or []), tenalg
        self.key = name.split("#")[0]      # the API entry the specs' tables are keyed by ("x#variant" = more argument forms of x)


class Call:
    def __init__(self, fn, /, *args, **kwargs):          # positional-only: callee keywords named `self` / `fn` are allowed
        self.fn, self.args, self.kwargs = fn, list(args), dict(kwargs)
        self.opt = ""           # option string the spec's exemption table is keyed on (e.g. "copy=False")
        self.expect = "return"  # informational: "raise" for the deliberately invalid variants
        self.forms = []         # argument forms of mode numbers / per-mode options (vocabulary: Ownership.tla ArgForms)
        self.first_call_overrides = None    # keyword overrides of a FIRST, failing call made on the same argument objects

    def form(self, *names):
        self.forms += list(names)
        return self

    def option(self, opt):
        self.opt = opt
        return self

    def raises(self):
        self.expect = "raise"
        return self


def entry(name, kinds=ARR, dtypes=FLOATS, inplace=None, out=None, tenalg=False):
    group = name.split(".")[0]

    def deco(f):
        ks = list(kinds)
        if tenalg:      # tenalg entries run under both tenalg backends
            ks = ks + [k + "@einsum" for k in kinds]
        inp, outs = inplace, out
        if "#" in name and name.split("#")[0] in ENTRIES:      # a variant inherits the declarations of its API entry
            base = ENTRIES[name.split("#")[0]]
            inp = base.inplace if inplace is None else inplace
            outs = base.out if out is None else out
        ENTRIES[name] = Entry(name, group, ks, dtypes, f, inp, outs, tenalg)
        return f
    return deco


# ----------------------------------------------------------------------------- builder context
class B:
    """Deterministic argument factory for one case."""

    def __init__(self, dtype, seed):
        self.dtype = dtype
        self.cplx = dtype.startswith("complex")
        self.rng = np.random.RandomState(seed % (2**31))
        self.regime = None

    def raw(self, shape, nonneg=False, lo=0.2):
        shape = tuple(shape)
        a = self.rng.random_sample(shape) + lo if nonneg else self.rng.standard_normal(shape)
        if self.cplx:
            a = a + 1j * self.rng.standard_normal(shape)
        return np.ascontiguousarray(a.astype(self.dtype))

    def _make(self, shape, kind="fresh", nonneg=False):
        shape = tuple(shape)
        kind = kind.split("@")[0]
        if kind == "tview" and len(shape) >= 2:
            return self.raw(shape[::-1], nonneg).T
        if kind == "sview":
            big = self.raw((shape[0] + 2,) + tuple(2 * s for s in shape[1:]), nonneg)
            return big[(slice(1, -1),) + tuple(slice(None, None, 2) for _ in shape[1:])]
        return self.raw(shape, nonneg)

    def arr(self, shape, kind="fresh", nonneg=False):
        return self.apply_regime(self._make(shape, kind, nonneg), nonneg)

    def apply_regime(self, a, nonneg=False):
        """Value regimes (REGIMES): rewrite the data array in place so that data-dependent branches of the
        library are taken (vanishing / zero columns, tiny or huge magnitudes, all-zero data, ties)."""
        r = self.regime
        if r is None or a.size == 0:
            return a
        single = self.dtype == "float32"
        last = (Ellipsis, -1)
        if r == "tiny":
            a *= 1e-18
        elif r == "huge":
            a *= 1e8 if single else 1e15
        elif r == "zero":
            a[...] = 0
        elif r == "zerocol":
            a[last] = 0
        elif r == "zerorow":
            a[0] = 0
        elif r == "badcol":          # one column almost vanished
            a[last] *= 1e-5 if single else 1e-9
        elif r == "badcol2":
            a[last] *= 1e-7 if single else 1e-12
        elif r == "negzero":         # negative zeros mixed with ordinary values
            if a.flags.c_contiguous:
                a.reshape(-1)[::3] = -0.0
            else:
                a[(Ellipsis, 0)] = -0.0
        elif r == "subnormal":       # smallest subnormals mixed with ordinary values
            sub = np.finfo(np.float32 if single else np.float64).smallest_subnormal
            if a.flags.c_contiguous:
                a.reshape(-1)[1::3] = sub
            else:
                a[(Ellipsis, 0)] = sub
        elif r == "ties":            # few distinct values, many exact ties
            a[...] = np.ceil(a.real) if nonneg else np.rint(a.real)
        return a

    def mask(self, shape, kind="fresh"):
        m = np.ones(shape, dtype=self.dtype)
        flat = m.reshape(-1)
        flat[self.rng.choice(flat.size, size=max(1, flat.size // 6), replace=False)] = 0
        if kind == "bool":
            return m.astype(bool)
        return m

    def factors(self, shape, rank, kind="fresh", nonneg=False):
        return [self.arr((s, rank), kind, nonneg) for s in shape]

    def cp(self, shape, rank, form="tuple", weights="ones", kind="fresh", nonneg=False):
        from tensorly.cp_tensor import CPTensor
        fs = self.factors(shape, rank, kind, nonneg)
        if weights == "none":
            w = None
        elif weights == "ones":
            w = np.ones(rank, dtype=self.dtype)
        else:
            w = (np.arange(rank) + 2).astype(self.dtype)
        if form == "tuple":
            return (w, fs)
        if form == "tuple_tuple":
            return (w, tuple(fs))
        if form == "list":
            return [w, fs]
        return CPTensor((w, fs))

    def tucker(self, shape, rank, form="tuple", kind="fresh", nonneg=False):
        from tensorly.tucker_tensor import TuckerTensor
        core = self.arr(rank, "fresh", nonneg)
        fs = [self.arr((s, r), kind, nonneg) for s, r in zip(shape, rank)]
        if form == "tuple":
            return (core, fs)
        if form == "list":
            return [core, fs]
        return TuckerTensor((core, fs))

    def tt(self, shape, rank, form="list", kind="fresh"):
        from tensorly.tt_tensor import TTTensor
        fs = [self.arr((rank[i], s, rank[i + 1]), kind) for i, s in enumerate(shape)]
        if form == "tuple":
            return tuple(fs)
        if form == "obj":
            return TTTensor(fs)
        return fs

    def tr(self, shape, rank, form="list", kind="fresh"):
        from tensorly.tr_tensor import TRTensor
        fs = [self.arr((rank[i], s, rank[i + 1]), kind) for i, s in enumerate(shape)]
        if form == "tuple":
            return tuple(fs)
        if form == "obj":
            return TRTensor(fs)
        return fs

    def ttm(self, form="list", kind="fresh"):
        from tensorly.tt_matrix import TTMatrix
        shp = [(1, 2, 3, 2), (2, 2, 2, 1)]
        fs = [self.arr(s, kind) for s in shp]
        if form == "tuple":
            return tuple(fs)
        if form == "obj":
            return TTMatrix(fs)
        return fs

    def p2(self, form="tuple", weights="ones", ragged=True):
        from tensorly.parafac2_tensor import Parafac2Tensor
        rank, I, J, K = 2, 3, 4, 3
        A, Bm, C = self.raw((I, rank)), self.raw((rank, rank)), self.raw((K, rank))
        projs = [np.linalg.qr(self.raw((J + (i % 2 if ragged else 0), rank)))[0].astype(self.dtype) for i in range(I)]
        w = None if weights == "none" else np.ones(rank, dtype=self.dtype)
        if weights == "nonunit":
            w = (np.arange(rank) + 2).astype(self.dtype)
        if form == "tuple":
            return (w, [A, Bm, C], projs)
        if form == "list":
            return [w, [A, Bm, C], projs]
        return Parafac2Tensor((w, [A, Bm, C], projs))

    def lowrank(self, shape, rank, kind="fresh", nonneg=False, noise=0.05):
        """A tensor of the requested kind whose values are rank-`rank` plus a little noise."""
        import tensorly as tl
        if self.regime == "overrank":       # exactly rank one: every requested rank is above the exact rank
            rank, noise = 1, 0.0
        fs = [self.raw((s, rank), nonneg) for s in shape]
        full = tl.cp_to_tensor((None, fs))
        full = full + noise * self.raw(shape, nonneg)
        out = self._make(shape, kind, nonneg)
        out[...] = full
        return self.apply_regime(out, nonneg)


SHAPE = (3, 4, 2)
RANK = 2


def form_of(kind):
    for f in ("tuple_tuple", "tuple", "list", "obj"):
        if kind.startswith(f):
            return f
    return "tuple"


def akind(kind):
    """Array kind component of a kind label such as 'obj_tview' or 'tview@einsum'."""
    k = kind.split("@")[0]
    for a in ARR:
        if k.endswith(a):
            return a
    return "fresh"


from . import lib_entries_algebra      # noqa: E402,F401  (registers base / tenalg / factorised tensors)
from . import lib_entries_decomp       # noqa: E402,F401  (registers decompositions / solvers / metrics / ...)
from . import lib_entries_modes        # noqa: E402,F401  (registers the forms of mode numbers / per-mode options)
from . import lib_entries_forms        # noqa: E402,F401  (call forms, aliasing, previous failure, size relations, flags, second entry points)


# ----------------------------------------------------------------------------- enumeration
# value regimes: additional kinds "<kind>~<regime>" for the entries whose code has data-dependent branches
REGIMES = ("tiny", "huge", "zero", "zerocol", "zerorow", "badcol", "badcol2", "ties", "negzero", "subnormal", "overrank")
REGIME_GROUPS = ("decomposition", "contrib", "solvers", "proximal", "tenalg", "metrics", "regression", "preprocessing",
                 "cp_tensor", "tucker_tensor", "parafac2_tensor")
# kinds (besides the first one) that also run under every regime: the solvers' caller-supplied start points
REGIME_EXTRA_KINDS = {"solvers.hals_nnls": ("V_fresh",), "solvers.fista": ("x_fresh",), "solvers.active_set_nnls": ("x_fresh",),
                      "decomposition.parafac": ("init_tuple",), "decomposition.non_negative_parafac_hals": ("init_tuple",),
                      "decomposition.non_negative_tucker_hals": ("active_set",)}
# (entry, regime) pairs left out because the library does not terminate in reasonable time on them
REGIME_SKIP = set()


def regime_kinds(e):
    out = []
    if e.group not in REGIME_GROUPS or "#" in e.name:     # argument-form variants run on regular data only
        return out
    for kind in (e.kinds[0],) + REGIME_EXTRA_KINDS.get(e.name, ()):
        for r in REGIMES:
            if r == "overrank" and e.group not in ("decomposition", "contrib"):
                continue
            if (e.name, r) in REGIME_SKIP:
                continue
            out.append("%s~%s" % (kind, r))
    return out


def cases(dtypes=FLOATS, groups=None, entries=None, regimes=True):
    out = []
    for name in sorted(ENTRIES):
        e = ENTRIES[name]
        if groups and e.group not in groups:
            continue
        if entries and name not in entries:
            continue
        for kind in e.kinds + (tuple(regime_kinds(e)) if regimes else ()):
            for dt in dtypes:
                if dt in e.dtypes:
                    out.append({"id": "%s/%s/%s" % (name, kind, dt), "entry": name, "kind": kind, "dtype": dt})
    return out


def case_seed(case, seed):
    import zlib
    return (zlib.crc32(case["id"].encode()) + 7919 * int(seed)) % (2**31)


def build(case, seed=0):
    e = ENTRIES[case["entry"]]
    b = B(case["dtype"], case_seed(case, seed))
    kind, _, regime = case["kind"].partition("~")
    b.regime = regime or None
    c = e.build(b, kind)
    c.tenalg = "einsum" if kind.endswith("@einsum") else ("core" if e.tenalg else None)
    return e, c


@contextlib.contextmanager
def _quiet_fds():
    """Silence C-level writes to stdout / stderr (LAPACK error handler on NaN / inf input) during the call."""
    import os
    import sys
    try:
        sys.stdout.flush()
        sys.stderr.flush()
        saved = [os.dup(1), os.dup(2)]
        null = os.open(os.devnull, os.O_WRONLY)
    except OSError:
        yield
        return
    try:
        os.dup2(null, 1)
        os.dup2(null, 2)
        yield
    finally:
        os.dup2(saved[0], 1)
        os.dup2(saved[1], 2)
        for fd in saved + [null]:
            os.close(fd)


def invoke(c, overrides=None):
    """Run the call (under the requested tenalg backend).  Returns ('return', value) or ('raise', exc).
    `overrides`: keyword arguments replacing / extending c.kwargs for this invocation only."""
    import warnings
    import tensorly as tl
    prev = None
    if c.tenalg:
        prev = tl.tenalg.get_backend()
        tl.tenalg.set_backend(c.tenalg)
    try:
        with warnings.catch_warnings():
            warnings.simplefilter("ignore")
            old = np.seterr(all="ignore")
            try:
                with contextlib.redirect_stdout(io.StringIO()), _quiet_fds():    # tucker_mode_dot & co print; LAPACK's xerbla too
                    kw = c.kwargs if not overrides else {**c.kwargs, **overrides}
                    kw = {k: v for k, v in kw.items() if not (overrides and k in overrides and overrides[k] is None and k not in c.kwargs)}
                    return "return", c.fn(*c.args, **kw)
            finally:
                np.seterr(**old)
    except Exception as ex:           # the call's own exit by exception is an observation, not an error
        return "raise", ex
    finally:
        if prev is not None:
            tl.tenalg.set_backend(prev)
