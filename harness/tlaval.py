"""Parser for TLA+ values as printed by TLC (records, tuples, sets, functions, strings, ints, booleans)."""
import re

_tok = re.compile(r'\s*(<<|>>|\|->|:>|@@|\[|\]|\{|\}|\(|\)|,|"(?:[^"\\]|\\.)*"|-?\d+|[A-Za-z_][A-Za-z0-9_]*)')


class _P:
    def __init__(self, s):
        self.s, self.pos = s, 0
        self.cur = None
        self.adv()

    def adv(self):
        m = _tok.match(self.s, self.pos)
        if not m:
            if self.s[self.pos:].strip() == "":
                self.cur = None
                return
            raise ValueError("bad token at %d: %r" % (self.pos, self.s[self.pos:self.pos + 40]))
        self.pos = m.end()
        self.cur = m.group(1)

    def expect(self, t):
        if self.cur != t:
            raise ValueError("expected %s got %s at %d" % (t, self.cur, self.pos))
        self.adv()

    def value(self):
        t = self.cur
        if t == "<<":
            self.adv()
            items = []
            while self.cur != ">>":
                items.append(self.value())
                if self.cur == ",":
                    self.adv()
            self.adv()
            return items
        if t == "{":
            self.adv()
            items = []
            while self.cur != "}":
                items.append(self.value())
                if self.cur == ",":
                    self.adv()
            self.adv()
            return {"$set": items}
        if t == "[":
            self.adv()
            rec = {}
            while self.cur != "]":
                k = self.cur
                self.adv()
                self.expect("|->")
                rec[k] = self.value()
                if self.cur == ",":
                    self.adv()
            self.adv()
            return rec
        if t == "(":
            self.adv()
            fn = {}
            while self.cur != ")":
                k = self.value()
                self.expect(":>")
                fn[k if isinstance(k, (str, int)) else repr(k)] = self.value()
                if self.cur == "@@":
                    self.adv()
            self.adv()
            return fn
        self.adv()
        if t.startswith('"'):
            return t[1:-1].replace('\\"', '"').replace("\\\\", "\\")
        if t == "TRUE":
            return True
        if t == "FALSE":
            return False
        if re.fullmatch(r"-?\d+", t):
            return int(t)
        return t


def parse(s):
    return _P(s).value()


def parse_dump(path):
    """States of a `tlc -dump file` text dump: list of {var: value}."""
    txt = open(path).read()
    states = []
    for block in re.split(r"^State \d+:\s*$", txt, flags=re.M)[1:]:
        block = block.strip()
        # variables are printed as `/\ v = value` (several) or `v = value` (one)
        parts = re.split(r"^(?:/\\ )?([A-Za-z_][A-Za-z0-9_]*) = ", block, flags=re.M)
        st = {}
        for k in range(1, len(parts), 2):
            st[parts[k]] = parse(parts[k + 1])
        states.append(st)
    return states
