"""Registry of the *seed-accepting* public entry points of tensorly (property C16) and the trace
recorder that replays a model history (RngStreams.tla) on one of them.

Nothing in here decides anything: `run_trace` executes the operations of a history
(Perturb / Reseed / CallNone / CallInt / CallGen) against the real code and logs, after every step,
the *digests* (interned to small integers per trace; only equality is meaningful) of
  * numpy.random.get_state()             -> "glob"
  * every np.random.RandomState object    -> "gens"
  * everything the call returned          -> "res"
RngStreamsTrace.tla accepts or rejects each logged step.

Registry = every public function / class of /repo/tensorly (tests excluded) that has a
`random_state` (or, for the two backend samplers, `seed`) parameter:
    grep -rn "random_state" tensorly --include=*.py | grep -v /tests/
Each entry comes with option variants (init='random', svd='randomized_svd', rank > dim, masks ...)
and with a deterministic companion (the "det" entry class of the model: an SVD-initialised
decomposition or a tensor-algebra routine that makes no random choice) which is only ever called
without a seed.  Inputs are built once from a private RandomState (never the global stream) and are
copied for every call, so a routine that modifies its inputs (property C15) cannot fake a C16 alarm.
"""
import hashlib
import warnings

import numpy as np

warnings.filterwarnings("ignore")


# ----------------------------------------------------------------------------- digests
def _h(parts):
    h = hashlib.sha256()
    for p in parts:
        h.update(p if isinstance(p, bytes) else str(p).encode())
        h.update(b"|")
    return h.hexdigest()


def state_digest(st):
    """digest of a RandomState.get_state() tuple: (name, key[624], pos, has_gauss, cached_gaussian)"""
    name, key, pos, has_gauss, cached = st
    return _h([name, np.ascontiguousarray(key).tobytes(), int(pos), int(has_gauss), np.float64(cached).tobytes()])


def _flat(obj, out, depth=0):
    if depth > 8:
        raise ValueError("result nests too deep")
    if obj is None:
        out.append(b"None")
    elif isinstance(obj, (str, bytes)):
        out.append(obj)
    elif isinstance(obj, (np.ndarray, np.generic, int, float, bool, complex)):
        a = np.ascontiguousarray(obj)
        out.append(str(a.dtype))
        out.append(str(a.shape))
        out.append(a.tobytes())          # bit identity (-0.0 != 0.0, NaN payloads count)
    elif isinstance(obj, slice):
        out.append(repr(obj))
    elif isinstance(obj, dict):
        for k in sorted(obj):
            out.append(str(k))
            _flat(obj[k], out, depth + 1)
    elif hasattr(obj, "__iter__"):
        items = list(obj)                 # tuples, lists, CPTensor/TuckerTensor/TT/TR/Parafac2 objects
        out.append("seq%d" % len(items))
        for it in items:
            _flat(it, out, depth + 1)
    else:
        raise TypeError("cannot digest %r" % type(obj))
    return out


def result_digest(obj):
    return _h(_flat(obj, []))


# ----------------------------------------------------------------------------- fixed inputs
class Inputs:
    def __init__(self):
        r = np.random.RandomState(20240916)      # private stream: the global one is never touched here
        A, B, C = r.rand(4, 2), r.rand(3, 2), r.rand(5, 2)
        self.T = np.einsum("ir,jr,kr->ijk", A, B, C) + 0.05 * r.randn(4, 3, 5)        # signed, 4x3x5
        self.P = np.einsum("ir,jr,kr->ijk", A, B, C) + 0.05 * r.rand(4, 3, 5)         # non-negative
        self.M = r.randn(6, 9)
        self.Mtall = r.randn(9, 4)
        self.mask = (r.rand(4, 3, 5) > 0.15).astype(float)
        self.mask2 = (r.rand(6, 9) > 0.1).astype(float)
        self.slices = [r.randn(n, 4) for n in (3, 4, 3)]
        self.pslices = [r.rand(n, 4) for n in (3, 4, 3)]
        self.X = r.randn(12, 3, 4)
        self.y = r.randn(12)
        self.Y2 = r.randn(12, 2)
        self.mats = [r.randn(4, 2), r.randn(3, 2), r.randn(5, 2)]
        self.T4 = r.rand(3, 3, 3, 3)
        self.cp = (np.array([1.0, 2.0]), [A, B, C])
        # argument forms / shape regimes
        self.y_n1 = r.randn(12, 1)
        self.X1, self.y1 = r.randn(1, 3, 4), r.randn(1)
        self.Xmat = r.randn(12, 5)
        self.Xother, self.yother = r.randn(9, 3, 4), r.randn(9)            # "other data" an estimator saw before
        self.T2 = r.randn(5, 4)                                             # order 2
        self.T4s = np.einsum("ir,jr,kr,lr->ijkl", r.rand(3, 2), r.rand(2, 2), r.rand(3, 2), r.rand(2, 2)) + 0.01 * r.rand(3, 2, 3, 2)  # order 4
        self.T1 = r.rand(4, 1, 5)                                           # a mode of size 1
        self.vecs = [r.randn(4), r.randn(3)]
        # size regime: one long mode (>= 256) and low rank
        # (130, 2, 2): the unfoldings of modes 1, 2 are 2 x 260, i.e. symeig_svd works on a 260 x 260 Gram matrix (the Gram
        # matrix has the size of the LARGER dimension; a 280 x 5 x 4 tensor would mean 1120 x 1120 and seconds per call)
        self.Tlong = np.einsum("ir,jr,kr->ijk", r.rand(130, 2), r.rand(2, 2), r.rand(2, 2)) + 0.05 * r.rand(130, 2, 2)
        self.Mlong = r.randn(300, 6)
        self.Mwide = r.randn(6, 300)
        self.slong = [np.abs(r.randn(n, 4)) for n in (280, 260, 270)]
        # tensor algebra on caller-held containers
        self.w2 = r.rand(2) + 0.5
        self.krmask = (r.rand(60, 1) > 0.2).astype(float)
        self.kmats = [r.randn(2, 3), r.randn(3, 2)]
        self.mmats = [r.randn(2, 4), r.randn(3, 3), r.randn(2, 5)]
        self.mvecs = [r.randn(4), r.randn(3), r.randn(5)]
        self.core = r.randn(2, 2, 2)
        self.ttf = [r.randn(1, 3, 2), r.randn(2, 4, 2), r.randn(2, 2, 1)]
        self.trf = [r.randn(2, 3, 2), r.randn(2, 4, 2), r.randn(2, 2, 2)]
        self.ttm = [r.randn(1, 2, 3, 2), r.randn(2, 2, 3, 1)]
        self.B1, self.B2 = r.randn(3, 4, 2), r.randn(3, 2, 5)
        self.samples = r.randn(6, 3)
        self.B3 = r.randn(4, 2, 5)
        self.bo = [r.randn(3, 2), r.randn(3, 4)]
        # plain Python containers the caller holds (never copied: a routine that appends to / removes from them shows)
        self.modes02, self.rank222, self.ttrank, self.trrank, self.fixed0 = [0, 2], [2, 2, 2], [1, 2, 2, 1], [2, 2, 2, 2], [0]


_INPUTS = None


def inputs():
    global _INPUTS
    if _INPUTS is None:
        _INPUTS = Inputs()
    return _INPUTS


# The caller's argument objects.  They are built ONCE PER TRACE (a private copy of the fixed inputs) and the very
# same array / list objects are handed to every call of that trace -- as a user does who calls a seeded routine twice
# on the data he holds.  A routine that overwrites its inputs therefore shows up as "same seed, same arguments,
# different result" (it is a C15 violation too; the `inp` field of the events says whether the arguments changed).
_ARGS = {}
_ALT = [False]      # the "alt" entry class of a trace: the SAME routine on a twin of the SAME arguments --
                    # False (the arguments themselves) | "float32" | "complex128" | "special" (per trace: case["altkind"]);
                    # "broken" is used for the failed call that may precede a history


def new_trace_arguments():
    _ARGS.clear()
    _ALT[0] = False


def _version(a, alt):
    def one(x):
        if alt == "float32" and x.dtype.kind == "f":
            return x.astype(np.float32)
        if alt == "complex128" and x.dtype.kind == "f":       # a genuinely complex tensor of the same shape
            return x.astype(np.complex128) + 0.5j * np.roll(x, 1, axis=0)
        if alt == "special" and x.dtype.kind == "f" and x.size >= 4:   # negative zeros and subnormals among ordinary values
            y = x.copy()
            flat = y.reshape(-1)
            flat[0], flat[1], flat[-1] = -0.0, 5e-324, -5e-324
            return y
        if alt == "broken" and x.dtype.kind == "f":           # data on which the routine fails (or goes NaN) half-way
            y = x.copy()
            y.reshape(-1)[::2] = np.nan
            return y
        return x.copy()
    return [one(x) for x in a] if isinstance(a, list) else one(a)


def c(a):
    k = (id(a), _ALT[0])
    if k not in _ARGS:
        _ARGS[k] = (a, _version(a, _ALT[0]), _version(a, _ALT[0]))      # (keeps `a` alive, pristine content, caller's object)
    return _ARGS[k][2]


def arguments_digest():
    """constant while every argument object still holds its pristine content; otherwise identifies what they hold now"""
    changed = []
    for k in sorted(_ARGS, key=str):
        _, pristine, mine = _ARGS[k]
        if _flat(pristine, []) != _flat(mine, []):
            changed.append(_flat(mine, []))
    return _h(["changed"] + [str(x) for x in changed]) if changed else "pristine"


# ----------------------------------------------------------------------------- the registry
def _entries():
    import tensorly as tl
    from tensorly import random as tr
    from tensorly import tenalg
    from tensorly import decomposition as D
    from tensorly.contrib.decomposition import tensor_train_cross
    from tensorly.tenalg.svd import randomized_svd, randomized_range_finder, svd_interface, truncated_svd
    from tensorly.regression import CPRegressor, TuckerRegressor, CP_PLSR
    I = inputs()
    E = []

    def add(fn, opt, rand, det, slow=False):
        E.append({"fn": fn, "opt": opt, "rand": rand, "det": det, "slow": slow})

    def addc(fn, opt, make, fit, det, clone=None, slow=False):
        """class-type entry: make(rs) constructs the estimator, fit(m) fits it on the fixed data and returns the
        result; the plain call is fit(make(rs)).  The same object can be fitted repeatedly (FitObj) and, where the
        class offers get_params(), rebuilt from it (CloneFit)."""
        add(fn, opt, lambda rs: fit(make(rs)), det, slow)
        E[-1]["obj"] = {"make": make, "fit": fit, "clone": clone}

    # deterministic companions ("functions without random choices")
    det_cpt = lambda: tl.cp_to_tensor((I.cp[0].copy(), c(I.cp[1])))
    det_kr = lambda: tenalg.khatri_rao(c(I.mats))
    det_modedot = lambda: tenalg.mode_dot(c(I.T), c(I.Mtall)[:, :3], 1)
    det_unfold = lambda: tl.unfold(c(I.T), 1)
    det_parafac = lambda: D.parafac(c(I.T), 2, n_iter_max=3, init="svd", tol=0)
    det_nnparafac = lambda: D.non_negative_parafac(c(I.P), 2, n_iter_max=3, init="svd", tol=0)
    det_nnhals = lambda: D.non_negative_parafac_hals(c(I.P), 2, n_iter_max=1, init="svd", tol=0)
    det_ccp = lambda: D.constrained_parafac(c(I.T), 2, n_iter_max=2, n_iter_max_inner=2, init="svd", non_negative=True)
    det_tucker = lambda: D.tucker(c(I.T), [2, 2, 2], n_iter_max=3, init="svd", tol=0)
    det_ptucker = lambda: D.partial_tucker(c(I.T), [2, 2], modes=[0, 2], n_iter_max=3, init="svd", tol=0)
    det_nntucker = lambda: D.non_negative_tucker(c(I.P), [2, 2, 2], n_iter_max=3, init="svd", tol=0)
    det_nntuckerh = lambda: D.non_negative_tucker_hals(c(I.P), [2, 2, 2], n_iter_max=1, init="svd", tol=0)
    det_parafac2 = lambda: D.parafac2(c(I.slices), 2, n_iter_max=3, init="svd", tol=0, linesearch=False)
    det_tt = lambda: D.tensor_train(c(I.T), [1, 2, 2, 1])
    det_tr = lambda: D.tensor_ring(c(I.T), [2, 2, 2, 2])
    det_ttm = lambda: D.tensor_train_matrix(c(I.T4), [1, 2, 1])
    det_tsvd = lambda: truncated_svd(c(I.M), n_eigenvecs=3)
    det_svdi = lambda: svd_interface(c(I.M), method="truncated_svd", n_eigenvecs=3)
    det_symeig = lambda: svd_interface(c(I.M), method="symeig_svd", n_eigenvecs=3)

    # ---- tensorly.random
    add("random_tensor", "", lambda rs: tr.random_tensor((3, 4, 2), random_state=rs), det_unfold)
    add("random_cp", "", lambda rs: tr.random_cp((3, 4, 2), 2, random_state=rs), det_cpt)
    add("random_cp", "full,orthogonal,normalise", lambda rs: tr.random_cp((3, 4, 3), 2, full=True, orthogonal=True, normalise_factors=True, random_state=rs), det_cpt)
    add("random_tucker", "", lambda rs: tr.random_tucker((3, 4, 2), [2, 2, 2], random_state=rs), det_modedot)
    add("random_tucker", "full,orthogonal,non_negative", lambda rs: tr.random_tucker((3, 4, 3), [2, 2, 2], full=True, orthogonal=True, non_negative=True, random_state=rs), det_modedot)
    add("random_tt", "", lambda rs: tr.random_tt((3, 4, 2), [1, 2, 2, 1], random_state=rs), det_tt)
    add("random_tt_matrix", "", lambda rs: tr.random_tt_matrix((2, 2, 3, 3), [1, 2, 1], random_state=rs), det_ttm)
    add("random_tr", "", lambda rs: tr.random_tr((3, 4, 2), [2, 2, 2, 2], random_state=rs), det_tr)
    add("random_tr", "full", lambda rs: tr.random_tr((3, 4, 2), [2, 2, 2, 2], full=True, random_state=rs), det_tr)
    add("random_parafac2", "", lambda rs: tr.random_parafac2([(3, 4), (4, 4), (3, 4)], 2, random_state=rs), det_kr)
    add("random_parafac2", "full,normalise", lambda rs: tr.random_parafac2([(3, 4), (4, 4), (3, 4)], 2, full=True, normalise_factors=True, random_state=rs), det_kr)
    # backend samplers (parameter is called `seed`)
    add("tl.randn", "", lambda rs: tl.randn((3, 2), seed=rs), det_unfold)
    add("tl.gamma", "", lambda rs: tl.gamma(2.0, 1.5, size=(3, 2), seed=rs), det_unfold)
    # the seed handed over POSITIONALLY (valid call forms of the tree this was built on)
    add("tl.randn", "seed positional", lambda rs: tl.randn((3, 2), rs), det_unfold)
    add("tl.gamma", "seed positional", lambda rs: tl.gamma(2.0, 1.5, (3, 2), rs), det_unfold)
    add("random_tensor", "seed positional", lambda rs: tr.random_tensor((3, 4, 2), rs), det_unfold, slow=True)
    add("random_cp", "seed positional", lambda rs: tr.random_cp((3, 4, 2), 2, False, False, rs), det_cpt, slow=True)
    add("tl.check_random_state", "draw", lambda rs: tl.check_random_state(rs).random_sample(5), det_unfold)

    # ---- CP
    add("parafac", "init=random", lambda rs: D.parafac(c(I.T), 2, n_iter_max=3, init="random", tol=0, random_state=rs), det_parafac)
    add("parafac", "init=random,normalize,orthogonalise,errors", lambda rs: D.parafac(c(I.T), 2, n_iter_max=3, init="random", tol=0, normalize_factors=True, orthogonalise=True, return_errors=True, random_state=rs), det_parafac)
    add("parafac", "init=random,mask", lambda rs: D.parafac(c(I.T), 2, n_iter_max=3, init="random", tol=0, mask=c(I.mask), random_state=rs), det_parafac)
    add("parafac", "init=random,linesearch", lambda rs: D.parafac(c(I.T), 2, n_iter_max=9, init="random", tol=1e-30, linesearch=True, random_state=rs), det_parafac)
    add("parafac", "init=random,sparsity", lambda rs: D.parafac(c(I.T), 2, n_iter_max=3, init="random", tol=0, sparsity=0.2, random_state=rs), det_parafac)
    add("parafac", "init=svd,rank>dim", lambda rs: D.parafac(c(I.T), 4, n_iter_max=3, init="svd", tol=0, random_state=rs), det_parafac)
    add("parafac", "init=svd,svd=randomized_svd", lambda rs: D.parafac(c(I.T), 2, n_iter_max=3, init="svd", svd="randomized_svd", tol=0, random_state=rs), det_parafac)
    add("parafac", "init=svd,svd=randomized_svd,mask", lambda rs: D.parafac(c(I.T), 2, n_iter_max=3, init="svd", svd="randomized_svd", tol=0, mask=c(I.mask), svd_mask_repeats=2, random_state=rs), det_parafac)
    add("parafac", "init=svd,svd=randomized_svd,rank>dim", lambda rs: D.parafac(c(I.T), 4, n_iter_max=3, init="svd", svd="randomized_svd", tol=0, random_state=rs), det_parafac)
    addc("CP.fit_transform", "init=random", lambda rs: D.CP(2, n_iter_max=3, init="random", tol=0, random_state=rs), lambda m: m.fit_transform(c(I.T)), det_parafac)
    add("non_negative_parafac", "init=random", lambda rs: D.non_negative_parafac(c(I.P), 2, n_iter_max=3, init="random", tol=0, random_state=rs), det_nnparafac)
    add("non_negative_parafac", "init=svd,rank>dim", lambda rs: D.non_negative_parafac(c(I.P), 4, n_iter_max=3, init="svd", tol=0, random_state=rs), det_nnparafac)
    add("non_negative_parafac", "init=svd,svd=randomized_svd", lambda rs: D.non_negative_parafac(c(I.P), 2, n_iter_max=3, init="svd", svd="randomized_svd", tol=0, random_state=rs), det_nnparafac)
    add("non_negative_parafac", "init=svd,svd=randomized_svd,mask", lambda rs: D.non_negative_parafac(c(I.P), 2, n_iter_max=3, init="svd", svd="randomized_svd", tol=0, mask=c(I.mask), random_state=rs), det_nnparafac)
    addc("CP_NN.fit_transform", "init=random", lambda rs: D.CP_NN(2, n_iter_max=3, init="random", tol=0, random_state=rs), lambda m: m.fit_transform(c(I.P)), det_nnparafac)
    add("non_negative_parafac_hals", "init=random", lambda rs: D.non_negative_parafac_hals(c(I.P), 2, n_iter_max=1, init="random", tol=0, random_state=rs), det_nnhals, slow=True)
    add("non_negative_parafac_hals", "init=svd,svd=randomized_svd", lambda rs: D.non_negative_parafac_hals(c(I.P), 2, n_iter_max=1, init="svd", svd="randomized_svd", tol=0, random_state=rs), det_nnhals, slow=True)
    addc("CP_NN_HALS.fit_transform", "init=random", lambda rs: D.CP_NN_HALS(2, n_iter_max=1, init="random", tol=0, random_state=rs), lambda m: m.fit_transform(c(I.P)), det_nnhals, slow=True)
    add("constrained_parafac", "init=random", lambda rs: D.constrained_parafac(c(I.T), 2, n_iter_max=2, n_iter_max_inner=2, init="random", non_negative=True, random_state=rs), det_ccp)
    add("constrained_parafac", "init=svd,rank>dim", lambda rs: D.constrained_parafac(c(I.T), 4, n_iter_max=2, n_iter_max_inner=2, init="svd", non_negative=True, random_state=rs), det_ccp)
    add("constrained_parafac", "init=svd,svd=randomized_svd", lambda rs: D.constrained_parafac(c(I.T), 2, n_iter_max=2, n_iter_max_inner=2, init="svd", svd="randomized_svd", non_negative=True, random_state=rs), det_ccp)
    add("constrained_parafac", "init=svd,svd=randomized_svd,rank>dim", lambda rs: D.constrained_parafac(c(I.T), 4, n_iter_max=2, n_iter_max_inner=2, init="svd", svd="randomized_svd", non_negative=True, random_state=rs), det_ccp)
    addc("ConstrainedCP.fit_transform", "init=random", lambda rs: D.ConstrainedCP(2, n_iter_max=2, n_iter_max_inner=2, init="random", l2_reg=0.1, random_state=rs), lambda m: m.fit_transform(c(I.T)), det_ccp)
    add("randomised_parafac", "init=random", lambda rs: D.randomised_parafac(c(I.T), 2, 8, n_iter_max=3, init="random", tol=0, random_state=rs), det_parafac)
    add("randomised_parafac", "init=svd", lambda rs: D.randomised_parafac(c(I.T), 2, 8, n_iter_max=3, init="svd", tol=0, random_state=rs), det_parafac)
    add("randomised_parafac", "init=svd,svd=randomized_svd,n_iter_max=6", lambda rs: D.randomised_parafac(c(I.T), 2, 8, n_iter_max=6, init="svd", svd="randomized_svd", tol=0, max_stagnation=0, random_state=rs), det_parafac)
    addc("RandomizedCP.fit_transform", "init=random", lambda rs: D.RandomizedCP(2, 8, n_iter_max=3, init="random", tol=0, verbose=0, random_state=rs), lambda m: m.fit_transform(c(I.T)), det_parafac)
    add("sample_khatri_rao", "", lambda rs: D.sample_khatri_rao(c(I.mats), 6, random_state=rs), det_kr)
    add("sample_khatri_rao", "skip_matrix,return_sampled_rows", lambda rs: D.sample_khatri_rao(c(I.mats), 6, skip_matrix=1, return_sampled_rows=True, random_state=rs), det_kr)

    # ---- Tucker
    add("tucker", "init=random", lambda rs: D.tucker(c(I.T), [2, 2, 2], n_iter_max=3, init="random", tol=0, random_state=rs), det_tucker)
    add("tucker", "init=random,mask,errors", lambda rs: D.tucker(c(I.T), [2, 2, 2], n_iter_max=3, init="random", tol=0, mask=c(I.mask), return_errors=True, random_state=rs), det_tucker)
    add("tucker", "init=svd,svd=randomized_svd", lambda rs: D.tucker(c(I.T), [2, 2, 2], n_iter_max=3, init="svd", svd="randomized_svd", tol=0, random_state=rs), det_tucker)
    add("tucker", "init=svd,svd=randomized_svd,mask", lambda rs: D.tucker(c(I.T), [2, 2, 2], n_iter_max=3, init="svd", svd="randomized_svd", tol=0, mask=c(I.mask), random_state=rs), det_tucker)
    addc("Tucker.fit_transform", "init=svd,svd=randomized_svd", lambda rs: D.Tucker([2, 2, 2], n_iter_max=3, init="svd", svd="randomized_svd", tol=0, random_state=rs), lambda m: m.fit_transform(c(I.T)), det_tucker)
    addc("Tucker.fit_transform", "init=random", lambda rs: D.Tucker([2, 2, 2], n_iter_max=3, init="random", tol=0, random_state=rs), lambda m: m.fit_transform(c(I.T)), det_tucker)
    add("partial_tucker", "init=random", lambda rs: D.partial_tucker(c(I.T), [2, 2], modes=[0, 2], n_iter_max=3, init="random", tol=0, random_state=rs), det_ptucker)
    add("partial_tucker", "init=svd,svd=randomized_svd", lambda rs: D.partial_tucker(c(I.T), [2, 2], modes=[0, 2], n_iter_max=3, init="svd", svd="randomized_svd", tol=0, random_state=rs), det_ptucker)
    add("partial_tucker", "init=svd,svd=randomized_svd,mask", lambda rs: D.partial_tucker(c(I.T), [2, 2], modes=[0, 2], n_iter_max=3, init="svd", svd="randomized_svd", tol=0, mask=c(I.mask), svd_mask_repeats=2, random_state=rs), det_ptucker)
    add("non_negative_tucker", "init=random", lambda rs: D.non_negative_tucker(c(I.P), [2, 2, 2], n_iter_max=3, init="random", tol=0, random_state=rs), det_nntucker)
    add("non_negative_tucker_hals", "init=random", lambda rs: D.non_negative_tucker_hals(c(I.P), [2, 2, 2], n_iter_max=1, init="random", tol=0, random_state=rs), det_nntuckerh, slow=True)
    add("non_negative_tucker_hals", "init=svd,svd=randomized_svd", lambda rs: D.non_negative_tucker_hals(c(I.P), [2, 2, 2], n_iter_max=1, init="svd", svd="randomized_svd", tol=0, random_state=rs), det_nntuckerh, slow=True)

    from tensorly.decomposition._tucker import Tucker_NN, Tucker_NN_HALS
    addc("Tucker_NN.fit_transform", "init=random", lambda rs: Tucker_NN([2, 2, 2], n_iter_max=3, init="random", tol=0, random_state=rs), lambda m: m.fit_transform(c(I.P)), det_nntucker)
    addc("Tucker_NN_HALS.fit_transform", "init=random", lambda rs: Tucker_NN_HALS([2, 2, 2], n_iter_max=1, init="random", tol=0, random_state=rs), lambda m: m.fit_transform(c(I.P)), det_nntuckerh, slow=True)

    # ---- PARAFAC2
    add("parafac2", "init=random", lambda rs: D.parafac2(c(I.slices), 2, n_iter_max=3, init="random", tol=0, linesearch=False, random_state=rs), det_parafac2)
    add("parafac2", "init=random,linesearch,normalize,errors", lambda rs: D.parafac2(c(I.slices), 2, n_iter_max=8, init="random", tol=1e-30, linesearch=True, normalize_factors=True, return_errors=True, random_state=rs), det_parafac2, slow=True)
    add("parafac2", "init=random,nn_modes", lambda rs: D.parafac2(c(I.pslices), 2, n_iter_max=2, n_iter_parafac=1, init="random", tol=0, nn_modes=[0], linesearch=False, random_state=rs), det_parafac2, slow=True)
    add("parafac2", "init=svd,svd=randomized_svd", lambda rs: D.parafac2(c(I.slices), 2, n_iter_max=3, init="svd", svd="randomized_svd", tol=0, linesearch=False, random_state=rs), det_parafac2)
    add("parafac2", "init=random,svd=randomized_svd", lambda rs: D.parafac2(c(I.slices), 2, n_iter_max=3, init="random", svd="randomized_svd", tol=0, linesearch=False, random_state=rs), det_parafac2)
    # randomness routed through a second site: randomized SVD inside the projections (every iteration) and inside the
    # line search (even iterations > 5, so the budget must reach iteration 6 and 8 and tol must not stop earlier)
    for init in ("random", "svd"):
        add("parafac2", "init=%s,svd=randomized_svd,linesearch,n_iter_max=9" % init,
            lambda rs, init=init: D.parafac2(c(I.slices), 2, n_iter_max=9, init=init, svd="randomized_svd", tol=1e-30, linesearch=True, return_errors=True, random_state=rs), det_parafac2, slow=True)
        add("parafac2", "init=%s,svd=randomized_svd,linesearch,nn_modes,n_iter_max=9" % init,
            lambda rs, init=init: D.parafac2(c(I.pslices), 2, n_iter_max=9, n_iter_parafac=1, init=init, svd="randomized_svd", tol=1e-30, nn_modes=[0, 2], linesearch=True, random_state=rs), det_parafac2, slow=True)
    addc("Parafac2.fit_transform", "init=svd,svd=randomized_svd,linesearch,n_iter_max=9", lambda rs: D.Parafac2(2, n_iter_max=9, init="svd", svd="randomized_svd", tol=1e-30, linesearch=True, return_errors=True, random_state=rs), lambda m: m.fit_transform(c(I.slices)), det_parafac2, slow=True)
    addc("Parafac2.fit_transform", "init=random", lambda rs: D.Parafac2(2, n_iter_max=3, init="random", tol=0, linesearch=False, return_errors=True, random_state=rs), lambda m: m.fit_transform(c(I.slices)), det_parafac2)

    # ---- tensor ring / tensor train
    add("tensor_ring_als", "", lambda rs: D.tensor_ring_als(c(I.T), [2, 2, 2, 2], n_iter_max=3, tol=0, random_state=rs), det_tr)
    add("tensor_ring_als", "ls_solve=normal_eq", lambda rs: D.tensor_ring_als(c(I.T), [2, 2, 2, 2], ls_solve="normal_eq", n_iter_max=3, tol=0, random_state=rs), det_tr)
    add("tensor_ring_als_sampled", "", lambda rs: D.tensor_ring_als_sampled(c(I.T), [2, 2, 2, 2], 10, n_iter_max=3, tol=0, random_state=rs), det_tr)
    add("tensor_ring_als_sampled", "uniform_sampling,randomized_error", lambda rs: D.tensor_ring_als_sampled(c(I.T), [2, 2, 2, 2], 10, n_iter_max=3, tol=1e-12, uniform_sampling=True, randomized_error=True, random_state=rs), det_tr)
    addc("TensorRingALS.fit_transform", "", lambda rs: D.TensorRingALS([2, 2, 2, 2], n_iter_max=3, tol=0, random_state=rs), lambda m: m.fit_transform(c(I.T)), det_tr)
    addc("TensorRingALSSampled.fit_transform", "", lambda rs: D.TensorRingALSSampled([2, 2, 2, 2], 10, n_iter_max=3, tol=0, random_state=rs), lambda m: m.fit_transform(c(I.T)), det_tr)
    add("tensor_train_cross", "", lambda rs: tensor_train_cross(c(I.P), [1, 2, 2, 1], tol=1e-4, n_iter_max=4, random_state=rs), det_tt)

    # many requested column indices out of few possible ones: the collision loop (re-draws) is certainly entered
    add("tensor_train_cross", "rank=1,3,4,1(index collisions)", lambda rs: tensor_train_cross(c(I.P), [1, 3, 4, 1], tol=1e-4, n_iter_max=4, random_state=rs), det_tt)
    add("tensor_ring_als_sampled", "n_iter_max=6,n_samples per mode", lambda rs: D.tensor_ring_als_sampled(c(I.T), [2, 2, 2, 2], [6, 8, 7], n_iter_max=6, tol=0, random_state=rs), det_tr)

    # ---- randomized SVD
    add("randomized_svd", "", lambda rs: randomized_svd(c(I.M), n_eigenvecs=3, random_state=rs), det_tsvd)
    add("randomized_svd", "tall", lambda rs: randomized_svd(c(I.Mtall), n_eigenvecs=2, n_oversamples=1, random_state=rs), det_tsvd)
    add("randomized_svd", "n_iter=0,n_eigenvecs=None", lambda rs: randomized_svd(c(I.M), n_iter=0, random_state=rs), det_tsvd)
    add("randomized_range_finder", "", lambda rs: randomized_range_finder(c(I.M), 3, random_state=rs), det_tsvd)
    add("svd_interface", "method=randomized_svd", lambda rs: svd_interface(c(I.M), method="randomized_svd", n_eigenvecs=3, random_state=rs), det_svdi)
    add("svd_interface", "method=randomized_svd,mask,non_negative", lambda rs: svd_interface(np.abs(I.M), method="randomized_svd", n_eigenvecs=3, mask=c(I.mask2), non_negative=True, random_state=rs), det_symeig)

    # ---- the randomized solver given as a CALLABLE (svd= / method= accept "a callable"): the seed must reach it exactly
    # as it reaches the string form.  Three forms of callable, rotated over the entries that take svd=/method=
    # (probe on the unchanged tree: every one of them accepts callables).
    import functools
    SVDF = {"function": randomized_svd, "partial": functools.partial(randomized_svd, n_oversamples=3),
            "lambda": lambda M, **kw: randomized_svd(M, **kw)}
    for form, f in SVDF.items():
        add("svd_interface", "method=<%s randomized_svd>" % form, lambda rs, f=f: svd_interface(c(I.M), method=f, n_eigenvecs=3, random_state=rs), det_svdi)
    f = SVDF["partial"]
    add("svd_interface", "method=<partial randomized_svd>,mask", lambda rs, f=f: svd_interface(np.abs(I.M), method=f, n_eigenvecs=3, mask=c(I.mask2), random_state=rs), det_svdi, slow=True)
    F, P, L = SVDF["function"], SVDF["partial"], SVDF["lambda"]
    add("parafac", "init=svd,svd=<function randomized_svd>", lambda rs: D.parafac(c(I.T), 2, n_iter_max=3, init="svd", svd=F, tol=0, random_state=rs), det_parafac)
    add("non_negative_parafac", "init=svd,svd=<partial randomized_svd>", lambda rs: D.non_negative_parafac(c(I.P), 2, n_iter_max=3, init="svd", svd=P, tol=0, random_state=rs), det_nnparafac, slow=True)
    add("non_negative_parafac_hals", "init=svd,svd=<lambda randomized_svd>", lambda rs: D.non_negative_parafac_hals(c(I.P), 2, n_iter_max=1, init="svd", svd=L, tol=0, random_state=rs), det_nnhals, slow=True)
    add("constrained_parafac", "init=svd,svd=<function randomized_svd>", lambda rs: D.constrained_parafac(c(I.T), 2, n_iter_max=2, n_iter_max_inner=2, init="svd", svd=F, non_negative=True, random_state=rs), det_ccp, slow=True)
    add("randomised_parafac", "init=svd,svd=<partial randomized_svd>", lambda rs: D.randomised_parafac(c(I.T), 2, 8, n_iter_max=3, init="svd", svd=P, tol=0, random_state=rs), det_parafac, slow=True)
    add("tucker", "init=svd,svd=<lambda randomized_svd>", lambda rs: D.tucker(c(I.T), [2, 2, 2], n_iter_max=3, init="svd", svd=L, tol=0, random_state=rs), det_tucker, slow=True)
    add("partial_tucker", "init=svd,svd=<function randomized_svd>", lambda rs: D.partial_tucker(c(I.T), [2, 2], modes=[0, 2], n_iter_max=3, init="svd", svd=F, tol=0, random_state=rs), det_ptucker, slow=True)
    add("non_negative_tucker_hals", "init=svd,svd=<partial randomized_svd>", lambda rs: D.non_negative_tucker_hals(c(I.P), [2, 2, 2], n_iter_max=1, init="svd", svd=P, tol=0, random_state=rs), det_nntuckerh, slow=True)
    add("parafac2", "init=svd,svd=<lambda randomized_svd>", lambda rs: D.parafac2(c(I.slices), 2, n_iter_max=3, init="svd", svd=L, tol=0, linesearch=False, random_state=rs), det_parafac2, slow=True)
    add("parafac2", "init=random,svd=<function randomized_svd>,linesearch,n_iter_max=9", lambda rs: D.parafac2(c(I.slices), 2, n_iter_max=9, init="random", svd=F, tol=1e-30, linesearch=True, random_state=rs), det_parafac2, slow=True)
    addc("CP.fit_transform", "init=svd,svd=<partial randomized_svd>", lambda rs: D.CP(2, n_iter_max=3, init="svd", svd=P, tol=0, random_state=rs), lambda m: m.fit_transform(c(I.T)), det_parafac, slow=True)
    addc("Tucker.fit_transform", "init=svd,svd=<function randomized_svd>", lambda rs: D.Tucker([2, 2, 2], n_iter_max=3, init="svd", svd=F, tol=0, random_state=rs), lambda m: m.fit_transform(c(I.T)), det_tucker, slow=True)
    addc("Parafac2.fit_transform", "init=svd,svd=<lambda randomized_svd>", lambda rs: D.Parafac2(2, n_iter_max=3, init="svd", svd=L, tol=0, linesearch=False, return_errors=True, random_state=rs), lambda m: m.fit_transform(c(I.slices)), det_parafac2, slow=True)

    # ---- regression
    by_params = lambda m: type(m)(**m.get_params())

    def reg_fit(Xk, yk, attrs):
        def fit(m):
            X, y = c(getattr(I, Xk)), c(getattr(I, yk))
            m.fit(X, y)
            return [getattr(m, a) for a in attrs] + [m.predict(X)]
        return fit

    def plsr_all(Xk, yk):
        def fit(m):
            X, Y = c(getattr(I, Xk)), c(getattr(I, yk))
            m.fit(X, Y)
            return [m.X_factors, m.Y_factors, m.coef_, m.predict(X), m.transform(X, Y), m.transform(X), m.score(X, Y)]
        return fit

    def plsr_ft(Xk, yk):
        return lambda m: [m.fit_transform(c(getattr(I, Xk)), c(getattr(I, yk))), m.coef_]
    # the response in its three forms: vector (n,), column (n,1), matrix (n,2) -- where the estimator accepts it
    for yk, form in (("y", "y=(n,)"), ("y_n1", "y=(n,1)"), ("Y2", "y=(n,2)")):
        addc("CPRegressor", form, lambda rs: CPRegressor(2, tol=0, n_iter_max=4, random_state=rs), reg_fit("X", yk, ["weight_tensor_", "cp_weight_"]), det_parafac, clone=by_params, slow=yk != "y")
        if yk != "Y2":       # TuckerRegressor rejects a matrix response
            addc("TuckerRegressor", form, lambda rs: TuckerRegressor([2, 2], tol=0, n_iter_max=4, random_state=rs), reg_fit("X", yk, ["weight_tensor_", "tucker_weight_"]), det_tucker, clone=by_params, slow=yk != "y")
        addc("CP_PLSR", form + ",fit+predict+transform+score", lambda rs: CP_PLSR(2, n_iter_max=5, random_state=rs), plsr_all("X", yk), det_svdi, clone=by_params, slow=yk == "y_n1")
        addc("CP_PLSR", form + ",fit_transform", lambda rs: CP_PLSR(2, n_iter_max=5, random_state=rs), plsr_ft("X", yk), det_svdi, clone=by_params, slow=True)
    addc("CP_PLSR", "X=matrix,y=(n,),fit+predict+transform+score", lambda rs: CP_PLSR(2, n_iter_max=5, random_state=rs), plsr_all("Xmat", "y"), det_svdi, clone=by_params, slow=True)
    for e in E:
        if "obj" in e and e["fn"] in ("CPRegressor", "TuckerRegressor", "CP_PLSR"):
            e["obj"]["other"] = lambda m: m.fit(c(I.Xother), c(I.yother))                 # a fit on other data
            e["obj"]["failing"] = lambda m: m.fit(c(I.Xother), c(I.y))                    # mismatching sample counts
        elif "obj" in e:
            e["obj"]["other"] = lambda m: m.fit_transform(c(I.pslices) if "Parafac2" in type(m).__name__ else c(I.T4s))
            e["obj"]["failing"] = lambda m: m.fit_transform("not a tensor")

    # ---- size regime: a long mode, low rank, every SVD method the entry accepts.  These are SVD-initialised, i.e. they make
    # no random choice with the two deterministic solvers: seeded and unseeded calls alike must repeat bit for bit.
    for m in ("truncated_svd", "symeig_svd", "randomized_svd"):
        add("svd_interface", "method=%s,300x6" % m, lambda rs, m=m: svd_interface(c(I.Mlong), method=m, n_eigenvecs=2, random_state=rs),
            lambda m=m: svd_interface(c(I.Mlong), method=m if m != "randomized_svd" else "symeig_svd", n_eigenvecs=2), slow=True)
        add("parafac", "init=svd,svd=%s,130x2x2(Gram 260)" % m, lambda rs, m=m: D.parafac(c(I.Tlong), 2, n_iter_max=2, init="svd", svd=m, tol=0, random_state=rs),
            lambda m=m: D.parafac(c(I.Tlong), 2, n_iter_max=2, init="svd", svd=m if m != "randomized_svd" else "symeig_svd", tol=0), slow=True)
        add("tucker", "init=svd,svd=%s,130x2x2(Gram 260)" % m, lambda rs, m=m: D.tucker(c(I.Tlong), [2, 2, 2], n_iter_max=2, init="svd", svd=m, tol=0, random_state=rs),
            lambda m=m: D.tucker(c(I.Tlong), [2, 2, 2], n_iter_max=2, init="svd", svd=m if m != "randomized_svd" else "symeig_svd", tol=0), slow=True)
    add("svd_interface", "method=symeig_svd,6x300", lambda rs: svd_interface(c(I.Mwide), method="symeig_svd", n_eigenvecs=2, random_state=rs),
        lambda: svd_interface(c(I.Mwide), method="symeig_svd", n_eigenvecs=2), slow=True)
    add("non_negative_parafac", "init=svd,svd=symeig_svd,130x2x2(Gram 260)", lambda rs: D.non_negative_parafac(np.abs(c(I.Tlong)), 2, n_iter_max=2, init="svd", svd="symeig_svd", tol=0, random_state=rs),
        lambda: D.non_negative_parafac(np.abs(c(I.Tlong)), 2, n_iter_max=2, init="svd", svd="symeig_svd", tol=0), slow=True)
    add("constrained_parafac", "init=svd,svd=symeig_svd,130x2x2(Gram 260)", lambda rs: D.constrained_parafac(c(I.Tlong), 2, n_iter_max=2, n_iter_max_inner=2, init="svd", svd="symeig_svd", non_negative=True, random_state=rs),
        lambda: D.constrained_parafac(c(I.Tlong), 2, n_iter_max=2, n_iter_max_inner=2, init="svd", svd="symeig_svd", non_negative=True), slow=True)
    add("partial_tucker", "init=svd,svd=symeig_svd,130x2x2(Gram 260)", lambda rs: D.partial_tucker(c(I.Tlong), [2, 2], modes=[0, 2], n_iter_max=2, init="svd", svd="symeig_svd", tol=0, random_state=rs),
        lambda: D.partial_tucker(c(I.Tlong), [2, 2], modes=[0, 2], n_iter_max=2, init="svd", svd="symeig_svd", tol=0), slow=True)
    add("parafac2", "init=random,svd=symeig_svd,slices of 260-280 rows", lambda rs: D.parafac2(c(I.slong), 2, n_iter_max=2, init="random", svd="symeig_svd", tol=0, linesearch=False, random_state=rs),
        lambda: D.parafac2(c(I.slong), 2, n_iter_max=2, init="svd", svd="symeig_svd", tol=0, linesearch=False), slow=True)
    add("tensor_ring_als", "130x2x2(Gram 260)", lambda rs: D.tensor_ring_als(c(I.Tlong), [2, 2, 2, 2], n_iter_max=2, tol=0, random_state=rs),
        lambda: D.tensor_ring(c(I.Tlong), [1, 2, 2, 1]), slow=True)

    # ---- shape regimes: order 2, order 4, a mode of size 1, rank above a dimension, vectors instead of matrices
    add("parafac", "init=random,order=2", lambda rs: D.parafac(c(I.T2), 2, n_iter_max=3, init="random", tol=0, random_state=rs), det_parafac, slow=True)
    add("parafac", "init=random,order=4", lambda rs: D.parafac(c(I.T4s), 2, n_iter_max=3, init="random", tol=0, random_state=rs), det_parafac, slow=True)
    add("parafac", "init=random,size-1 mode", lambda rs: D.parafac(c(I.T1), 2, n_iter_max=3, init="random", tol=0, random_state=rs), det_parafac, slow=True)
    add("parafac", "init=svd,svd=randomized_svd,order=4,rank>dims", lambda rs: D.parafac(c(I.T4s), 4, n_iter_max=3, init="svd", svd="randomized_svd", tol=0, random_state=rs), det_parafac, slow=True)
    add("non_negative_parafac_hals", "init=svd,rank>dim", lambda rs: D.non_negative_parafac_hals(c(I.P), 4, n_iter_max=1, init="svd", tol=0, random_state=rs), det_nnhals, slow=True)
    add("randomised_parafac", "init=svd,rank>dim", lambda rs: D.randomised_parafac(c(I.T), 4, 8, n_iter_max=3, init="svd", tol=0, random_state=rs), det_parafac, slow=True)
    add("tucker", "init=random,order=2", lambda rs: D.tucker(c(I.T2), [2, 2], n_iter_max=3, init="random", tol=0, random_state=rs), det_tucker, slow=True)
    add("tucker", "init=random,order=4", lambda rs: D.tucker(c(I.T4s), [2, 2, 2, 2], n_iter_max=3, init="random", tol=0, random_state=rs), det_tucker, slow=True)
    add("tucker", "init=svd,svd=randomized_svd,size-1 mode", lambda rs: D.tucker(c(I.T1), [2, 1, 2], n_iter_max=3, init="svd", svd="randomized_svd", tol=0, random_state=rs), det_tucker, slow=True)
    add("non_negative_tucker", "init=random,order=4", lambda rs: D.non_negative_tucker(c(I.T4s), [2, 2, 2, 2], n_iter_max=3, init="random", tol=0, random_state=rs), det_nntucker, slow=True)
    add("tensor_ring_als", "order=4", lambda rs: D.tensor_ring_als(c(I.T4s), [2, 2, 2, 2, 2], n_iter_max=3, tol=0, random_state=rs), det_tr, slow=True)
    add("tensor_ring_als_sampled", "order=4", lambda rs: D.tensor_ring_als_sampled(c(I.T4s), [2, 2, 2, 2, 2], 8, n_iter_max=3, tol=0, random_state=rs), det_tr, slow=True)
    add("tensor_train_cross", "order=4", lambda rs: tensor_train_cross(c(I.T4s), [1, 2, 2, 2, 1], tol=1e-4, n_iter_max=3, random_state=rs), det_tt, slow=True)
    add("constrained_parafac", "init=random,order=2", lambda rs: D.constrained_parafac(c(I.T2), 2, n_iter_max=2, n_iter_max_inner=2, init="random", l2_reg=0.1, random_state=rs), det_ccp, slow=True)
    add("randomized_svd", "size-1 dimension", lambda rs: randomized_svd(c(I.y_n1), n_eigenvecs=1, random_state=rs), det_tsvd, slow=True)
    add("sample_khatri_rao", "vectors(one column)", lambda rs: D.sample_khatri_rao([v.reshape(-1, 1) for v in c(I.vecs)], 5, random_state=rs), det_kr, slow=True)
    add("random_cp", "size-1 mode,rank>dim", lambda rs: tr.random_cp((3, 1, 2), 3, random_state=rs), det_cpt, slow=True)
    add("random_tucker", "order=2", lambda rs: tr.random_tucker((3, 4), [2, 2], random_state=rs), det_modedot, slow=True)
    add("random_tt", "order=4", lambda rs: tr.random_tt((3, 2, 3, 2), [1, 2, 2, 2, 1], random_state=rs), det_tt, slow=True)
    # ---- CALL FORM: everything up to and including the seed handed over POSITIONALLY in the published (frozen) order
    from .lib_seeded_frozen import positional as pos
    P_ = lambda name, fn, **kw: (lambda rs: pos(name, fn, rs, **{k: (v() if callable(v) else v) for k, v in kw.items()}))
    T_, Pn_, S_, M_ = (lambda: c(I.T)), (lambda: c(I.P)), (lambda: c(I.slices)), (lambda: c(I.M))
    add("random_tensor", "positional", P_("random_tensor", tr.random_tensor, shape=(3, 4, 2)), det_unfold, slow=True)
    add("random_cp", "positional", P_("random_cp", tr.random_cp, shape=(3, 4, 2), rank=2), det_cpt, slow=True)
    add("random_tucker", "positional", P_("random_tucker", tr.random_tucker, shape=(3, 4, 2), rank=[2, 2, 2]), det_modedot, slow=True)
    add("random_tt", "positional", P_("random_tt", tr.random_tt, shape=(3, 4, 2), rank=[1, 2, 2, 1]), det_tt, slow=True)
    add("random_tt_matrix", "positional", P_("random_tt_matrix", tr.random_tt_matrix, shape=(2, 2, 3, 3), rank=[1, 2, 1]), det_ttm, slow=True)
    add("random_tr", "positional", P_("random_tr", tr.random_tr, shape=(3, 4, 2), rank=[2, 2, 2, 2]), det_tr, slow=True)
    add("random_parafac2", "positional", P_("random_parafac2", tr.random_parafac2, shapes=[(3, 4), (4, 4), (3, 4)], rank=2), det_kr, slow=True)
    add("parafac", "positional,init=random", P_("parafac", D.parafac, tensor=T_, rank=2, n_iter_max=3, init="random", tol=0), det_parafac, slow=True)
    add("non_negative_parafac", "positional,init=random", P_("non_negative_parafac", D.non_negative_parafac, tensor=Pn_, rank=2, n_iter_max=3, init="random", tol=0), det_nnparafac, slow=True)
    add("non_negative_parafac_hals", "positional,init=random", P_("non_negative_parafac_hals", D.non_negative_parafac_hals, tensor=Pn_, rank=2, n_iter_max=1, init="random", tol=0), det_nnhals, slow=True)
    add("constrained_parafac", "positional,init=random", P_("constrained_parafac", D.constrained_parafac, tensor=T_, rank=2, n_iter_max=2, n_iter_max_inner=2, init="random", non_negative=True), det_ccp, slow=True)
    add("randomised_parafac", "positional,init=random", P_("randomised_parafac", D.randomised_parafac, tensor=T_, rank=2, n_samples=8, n_iter_max=3, init="random", tol=0), det_parafac, slow=True)
    add("sample_khatri_rao", "positional", P_("sample_khatri_rao", D.sample_khatri_rao, matrices=lambda: c(I.mats), n_samples=6), det_kr, slow=True)
    add("tucker", "positional,init=random", P_("tucker", D.tucker, tensor=T_, rank=[2, 2, 2], n_iter_max=3, init="random", tol=0), det_tucker, slow=True)
    add("partial_tucker", "positional,init=random", P_("partial_tucker", D.partial_tucker, tensor=T_, rank=[2, 2], modes=[0, 2], n_iter_max=3, init="random", tol=0), det_ptucker, slow=True)
    add("non_negative_tucker", "positional,init=random", P_("non_negative_tucker", D.non_negative_tucker, tensor=Pn_, rank=[2, 2, 2], n_iter_max=3, init="random", tol=0), det_nntucker, slow=True)
    add("non_negative_tucker_hals", "positional,init=random", P_("non_negative_tucker_hals", D.non_negative_tucker_hals, tensor=Pn_, rank=[2, 2, 2], n_iter_max=1, init="random", tol=0), det_nntuckerh, slow=True)
    add("parafac2", "positional,init=random", P_("parafac2", D.parafac2, tensor_slices=S_, rank=2, n_iter_max=3, init="random", tol=0, linesearch=False), det_parafac2, slow=True)
    add("tensor_ring_als", "positional", P_("tensor_ring_als", D.tensor_ring_als, tensor=T_, rank=[2, 2, 2, 2], n_iter_max=3, tol=0), det_tr, slow=True)
    add("tensor_ring_als_sampled", "positional", P_("tensor_ring_als_sampled", D.tensor_ring_als_sampled, tensor=T_, rank=[2, 2, 2, 2], n_samples=10, n_iter_max=3, tol=0), det_tr, slow=True)
    add("tensor_train_cross", "positional", P_("tensor_train_cross", tensor_train_cross, input_tensor=Pn_, rank=[1, 2, 2, 1], n_iter_max=4), det_tt, slow=True)
    add("randomized_svd", "positional", P_("randomized_svd", randomized_svd, matrix=M_, n_eigenvecs=3), det_tsvd, slow=True)
    add("randomized_range_finder", "positional", P_("randomized_range_finder", randomized_range_finder, A=M_, n_dims=3), det_tsvd, slow=True)
    ft = lambda arg: (lambda m: m.fit_transform(arg()))
    addc("CP.fit_transform", "positional,init=random", P_("CP", D.CP, rank=2, n_iter_max=3, init="random", tol=0), ft(T_), det_parafac, slow=True)
    addc("RandomizedCP.fit_transform", "positional", P_("RandomizedCP", D.RandomizedCP, rank=2, n_samples=8, n_iter_max=3, tol=0, verbose=0), ft(T_), det_parafac, slow=True)
    addc("CP_NN.fit_transform", "positional,init=random", P_("CP_NN", D.CP_NN, rank=2, n_iter_max=3, init="random", tol=0), ft(Pn_), det_nnparafac, slow=True)
    addc("CP_NN_HALS.fit_transform", "positional,init=random", P_("CP_NN_HALS", D.CP_NN_HALS, rank=2, n_iter_max=1, init="random", tol=0), ft(Pn_), det_nnhals, slow=True)
    addc("ConstrainedCP.fit_transform", "positional,init=random", P_("ConstrainedCP", D.ConstrainedCP, rank=2, n_iter_max=2, n_iter_max_inner=2, init="random", l2_reg=0.1), ft(T_), det_ccp, slow=True)
    addc("Tucker.fit_transform", "positional,init=random", P_("Tucker", D.Tucker, rank=[2, 2, 2], n_iter_max=3, init="random", tol=0), ft(T_), det_tucker, slow=True)
    addc("Tucker_NN.fit_transform", "positional,init=random", P_("Tucker_NN", Tucker_NN, rank=[2, 2, 2], n_iter_max=3, init="random", tol=0), ft(Pn_), det_nntucker, slow=True)
    addc("Tucker_NN_HALS.fit_transform", "positional,init=random", P_("Tucker_NN_HALS", Tucker_NN_HALS, rank=[2, 2, 2], n_iter_max=1, init="random", tol=0), ft(Pn_), det_nntuckerh, slow=True)
    addc("Parafac2.fit_transform", "positional,init=random", P_("Parafac2", D.Parafac2, rank=2, n_iter_max=3, init="random", tol=0, linesearch=False, return_errors=True), ft(S_), det_parafac2, slow=True)
    addc("TensorRingALS.fit_transform", "positional", P_("TensorRingALS", D.TensorRingALS, rank=[2, 2, 2, 2], n_iter_max=3, tol=0), ft(T_), det_tr, slow=True)
    addc("TensorRingALSSampled.fit_transform", "positional", P_("TensorRingALSSampled", D.TensorRingALSSampled, rank=[2, 2, 2, 2], n_samples=10, n_iter_max=3, tol=0), ft(T_), det_tr, slow=True)
    addc("CPRegressor", "positional", P_("CPRegressor", CPRegressor, weight_rank=2, tol=0, n_iter_max=4), reg_fit("X", "y", ["weight_tensor_"]), det_parafac, clone=by_params, slow=True)
    addc("TuckerRegressor", "positional", P_("TuckerRegressor", TuckerRegressor, weight_ranks=[2, 2], tol=0, n_iter_max=4), reg_fit("X", "y", ["weight_tensor_"]), det_tucker, clone=by_params, slow=True)
    addc("CP_PLSR", "positional", P_("CP_PLSR", CP_PLSR, n_components=2, n_iter_max=5), plsr_ft("X", "y"), det_svdi, clone=by_params, slow=True)

    # ---- (7) a second public entry point on the same helper: DecompositionMixin.fit (then .decomposition_) next to fit_transform
    fitattr = lambda arg: (lambda m: [m.fit(arg()).decomposition_])
    addc("CP.fit", "init=random", lambda rs: D.CP(2, n_iter_max=3, init="random", tol=0, random_state=rs), fitattr(T_), det_parafac, slow=True)
    addc("Tucker.fit", "init=random", lambda rs: D.Tucker([2, 2, 2], n_iter_max=3, init="random", tol=0, random_state=rs), fitattr(T_), det_tucker, slow=True)
    addc("TensorRingALS.fit", "", lambda rs: D.TensorRingALS([2, 2, 2, 2], n_iter_max=3, tol=0, random_state=rs), fitattr(T_), det_tr, slow=True)
    addc("CP_NN_HALS.fit", "init=random", lambda rs: D.CP_NN_HALS(2, n_iter_max=1, init="random", tol=0, random_state=rs), fitattr(Pn_), det_nnhals, slow=True)
    addc("RandomizedCP.fit", "", lambda rs: D.RandomizedCP(2, 8, n_iter_max=3, tol=0, verbose=0, random_state=rs), fitattr(T_), det_parafac, slow=True)

    # ---- (4) rank / size relations: rank 1, rank equal to a mode size, a single column / sample / component
    add("parafac", "init=random,rank=1", lambda rs: D.parafac(c(I.T), 1, n_iter_max=3, init="random", tol=0, random_state=rs), det_parafac, slow=True)
    add("parafac", "init=random,rank=mode size(3)", lambda rs: D.parafac(c(I.T), 3, n_iter_max=3, init="random", tol=0, random_state=rs), det_parafac, slow=True)
    add("parafac", "init=svd,svd=randomized_svd,rank=mode size(3)", lambda rs: D.parafac(c(I.T), 3, n_iter_max=3, init="svd", svd="randomized_svd", tol=0, random_state=rs), det_parafac, slow=True)
    add("tucker", "init=random,rank=1", lambda rs: D.tucker(c(I.T), [1, 1, 1], n_iter_max=3, init="random", tol=0, random_state=rs), det_tucker, slow=True)
    add("tucker", "init=svd,svd=randomized_svd,rank=mode sizes", lambda rs: D.tucker(c(I.T), [4, 3, 5], n_iter_max=2, init="svd", svd="randomized_svd", tol=0, random_state=rs), det_tucker, slow=True)
    add("non_negative_parafac", "init=random,rank=1", lambda rs: D.non_negative_parafac(c(I.P), 1, n_iter_max=3, init="random", tol=0, random_state=rs), det_nnparafac, slow=True)
    add("tensor_ring_als", "rank=1", lambda rs: D.tensor_ring_als(c(I.T), [1, 1, 1, 1], n_iter_max=3, tol=0, random_state=rs), det_tr, slow=True)
    add("random_cp", "rank=1,orthogonal", lambda rs: tr.random_cp((3, 4, 2), 1, orthogonal=True, random_state=rs), det_cpt, slow=True)
    add("randomized_svd", "n_eigenvecs=1", lambda rs: randomized_svd(c(I.M), n_eigenvecs=1, random_state=rs), det_tsvd, slow=True)
    add("randomized_svd", "n_eigenvecs=min dim", lambda rs: randomized_svd(c(I.M), n_eigenvecs=6, random_state=rs), det_tsvd, slow=True)
    add("sample_khatri_rao", "n_samples=1", lambda rs: D.sample_khatri_rao(c(I.mats), 1, random_state=rs), det_kr, slow=True)
    add("parafac2", "init=random,rank=1", lambda rs: D.parafac2(c(I.slices), 1, n_iter_max=3, init="random", tol=0, linesearch=False, random_state=rs), det_parafac2, slow=True)
    addc("CPRegressor", "weight_rank=1", lambda rs: CPRegressor(1, tol=0, n_iter_max=4, random_state=rs), reg_fit("X", "y", ["weight_tensor_"]), det_parafac, clone=by_params, slow=True)
    addc("CPRegressor", "single sample", lambda rs: CPRegressor(2, tol=0, n_iter_max=3, random_state=rs), reg_fit("X1", "y1", ["weight_tensor_"]), det_parafac, clone=by_params, slow=True)
    addc("TuckerRegressor", "weight_ranks=1", lambda rs: TuckerRegressor([1, 1], tol=0, n_iter_max=4, random_state=rs), reg_fit("X", "y", ["weight_tensor_"]), det_tucker, clone=by_params, slow=True)
    addc("CP_PLSR", "n_components=1", lambda rs: CP_PLSR(1, n_iter_max=5, random_state=rs), plsr_all("X", "y"), det_svdi, clone=by_params, slow=True)

    # ---- (6) return flags / callbacks together
    def with_cb(f):
        def run(rs):
            log = []
            out = f(rs, lambda *a: log.append([x for x in a if isinstance(x, (float, np.floating, np.ndarray))]))
            return [out, log]
        return run
    add("parafac", "init=random,return_errors+callback", with_cb(lambda rs, cb: D.parafac(c(I.T), 2, n_iter_max=3, init="random", tol=1e-30, return_errors=True, callback=cb, random_state=rs)), det_parafac, slow=True)
    add("randomised_parafac", "return_errors+callback", with_cb(lambda rs, cb: D.randomised_parafac(c(I.T), 2, 8, n_iter_max=3, init="random", tol=1e-30, return_errors=True, callback=cb, random_state=rs)), det_parafac, slow=True)
    add("tensor_ring_als", "callback", with_cb(lambda rs, cb: D.tensor_ring_als(c(I.T), [2, 2, 2, 2], n_iter_max=3, tol=0, callback=cb, random_state=rs)), det_tr, slow=True)
    add("tensor_ring_als_sampled", "callback,randomized_error", with_cb(lambda rs, cb: D.tensor_ring_als_sampled(c(I.T), [2, 2, 2, 2], 10, n_iter_max=3, tol=0, randomized_error=True, callback=cb, random_state=rs)), det_tr, slow=True)
    add("non_negative_parafac_hals", "init=random,return_errors", lambda rs: D.non_negative_parafac_hals(c(I.P), 2, n_iter_max=1, init="random", tol=1e-30, return_errors=True, random_state=rs), det_nnhals, slow=True)
    add("constrained_parafac", "init=random,return_errors", lambda rs: D.constrained_parafac(c(I.T), 2, n_iter_max=2, n_iter_max_inner=2, init="random", l2_reg=0.1, return_errors=True, random_state=rs), det_ccp, slow=True)
    add("non_negative_tucker", "init=random,return_errors,normalize_factors", lambda rs: D.non_negative_tucker(c(I.P), [2, 2, 2], n_iter_max=3, init="random", tol=0, return_errors=True, normalize_factors=True, random_state=rs), det_nntucker, slow=True)
    add("sample_khatri_rao", "indices_list given(no draw)", lambda rs: D.sample_khatri_rao(c(I.mats), 3, indices_list=[np.array([0, 1, 2]), np.array([2, 1, 0]), np.array([4, 0, 1])], return_sampled_rows=True, random_state=rs), det_kr, slow=True)

    # ---- (2) aliasing: the same array object in two argument slots
    def same_twice():
        A = c(I.mats)[0]
        return [A, A]
    add("sample_khatri_rao", "the same matrix twice", lambda rs: D.sample_khatri_rao(same_twice(), 5, random_state=rs), lambda: tenalg.khatri_rao(same_twice()), slow=True)
    add("parafac2", "init=random,the same slice three times", lambda rs: D.parafac2([c(I.slices)[0]] * 3, 2, n_iter_max=3, init="random", tol=0, linesearch=False, random_state=rs), det_parafac2, slow=True)
    addc("CP_PLSR", "Y is X (matrix)", lambda rs: CP_PLSR(2, n_iter_max=5, random_state=rs), lambda m: (lambda X: [m.fit_transform(X, X), m.predict(X)])(c(I.Xmat)), det_svdi, clone=by_params, slow=True)

    # ---- routines WITHOUT random choices under test themselves: tensor algebra and the functions on factorised tensors,
    # in their option forms, on containers (lists / tuples of arrays) the caller keeps and hands over again.  They have
    # no random_state: only the unseeded call exists (the seed-accepting companion of these registry lines is a trivial draw).
    import tensorly.tenalg as ta
    draw = lambda rs: tl.check_random_state(rs).random_sample(2)

    def addd(fn, opt, det):
        add(fn, opt, draw, det, slow=True)
        E[-1]["detonly"] = True
    cpt = lambda: (c(I.w2), c(I.mats))
    addd("khatri_rao", "", lambda: ta.khatri_rao(c(I.mats)))
    addd("khatri_rao", "weights", lambda: ta.khatri_rao(c(I.mats), weights=c(I.w2)))
    addd("khatri_rao", "weights,skip_matrix", lambda: ta.khatri_rao(c(I.mats), weights=c(I.w2), skip_matrix=1))
    # mask: tensor-shaped (4,3,5) is accepted by both implementations; a column (60,1) only by "core" -- under "einsum"
    # it raises ValueError (einsum subscripts), which as an outcome must simply reproduce
    addd("khatri_rao", "mask(tensor-shaped)", lambda: ta.khatri_rao(c(I.mats), mask=c(I.mask)))
    addd("khatri_rao", "weights,mask(tensor-shaped)", lambda: ta.khatri_rao(c(I.mats), weights=c(I.w2), mask=c(I.mask)))
    addd("khatri_rao", "weights,mask(column)", lambda: ta.khatri_rao(c(I.mats), weights=c(I.w2), mask=c(I.krmask)))
    addd("khatri_rao", "skip_matrix", lambda: ta.khatri_rao(c(I.mats), skip_matrix=0))
    addd("khatri_rao", "the same matrix twice,weights", lambda: ta.khatri_rao(same_twice(), weights=c(I.w2)))
    addd("multi_mode_dot", "the same matrix for two modes", lambda: ta.multi_mode_dot(c(I.T4), [c(I.mats)[1].T[:, :3]] * 2, modes=[0, 2]))
    addd("inner", "a tensor with itself", lambda: ta.inner(c(I.T), c(I.T)))
    addd("outer", "the same vector twice", lambda: ta.outer([c(I.mvecs)[0]] * 2))
    addd("kronecker", "", lambda: ta.kronecker(c(I.kmats)))
    addd("kronecker", "skip_matrix,reverse", lambda: ta.kronecker(c(I.mats), skip_matrix=1, reverse=True))
    addd("mode_dot", "matrix", lambda: ta.mode_dot(c(I.T), c(I.mmats)[1], 1))
    addd("mode_dot", "vector", lambda: ta.mode_dot(c(I.T), c(I.mvecs)[1], 1))
    addd("mode_dot", "matrix,transpose", lambda: ta.mode_dot(c(I.T), c(I.mats)[2], 2, transpose=True))
    addd("multi_mode_dot", "matrices", lambda: ta.multi_mode_dot(c(I.T), c(I.mmats)))
    addd("multi_mode_dot", "vectors", lambda: ta.multi_mode_dot(c(I.T), c(I.mvecs)))
    addd("multi_mode_dot", "modes,skip", lambda: ta.multi_mode_dot(c(I.T), c(I.mmats), modes=[0, 1, 2], skip=1))
    addd("multi_mode_dot", "transpose", lambda: ta.multi_mode_dot(c(I.T), c(I.mats), transpose=True))
    addd("inner", "", lambda: ta.inner(c(I.T), c(I.P)))
    addd("inner", "n_modes=2", lambda: ta.inner(c(I.B1), c(I.B3), n_modes=2))
    addd("outer", "", lambda: ta.outer(c(I.mvecs)))
    addd("batched_outer", "", lambda: ta.batched_outer(c(I.bo)))
    addd("tensordot", "batched", lambda: ta.tensordot(c(I.B1), c(I.B2), modes=[2, 1], batched_modes=[0, 0]))
    addd("unfolding_dot_khatri_rao", "mode=1", lambda: ta.unfolding_dot_khatri_rao(c(I.T), cpt(), 1))
    addd("unfolding_dot_khatri_rao", "weights=None", lambda: ta.unfolding_dot_khatri_rao(c(I.T), (None, c(I.mats)), 0))
    addd("higher_order_moment", "order=3", lambda: ta.higher_order_moment(c(I.samples), 3))
    addd("cp_to_tensor", "", lambda: tl.cp_to_tensor(cpt()))
    addd("cp_to_tensor", "mask", lambda: tl.cp_to_tensor(cpt(), mask=c(I.mask)))
    addd("cp_to_unfolded", "mode=2", lambda: tl.cp_to_unfolded(cpt(), 2))
    addd("cp_to_vec", "", lambda: tl.cp_to_vec(cpt()))
    addd("cp_norm", "", lambda: tl.cp_tensor.cp_norm(cpt()))
    addd("cp_normalize", "", lambda: tl.cp_tensor.cp_normalize(cpt()))
    addd("cp_flip_sign", "", lambda: tl.cp_tensor.cp_flip_sign(cpt()))
    addd("cp_mode_dot", "copy=True", lambda: tl.cp_tensor.cp_mode_dot(cpt(), c(I.mmats)[1], 1, copy=True))      # copy=False (the default) works in place
    addd("cp_permute_factors", "", lambda: tl.cp_tensor.cp_permute_factors(tl.cp_tensor.CPTensor(cpt()), [tl.cp_tensor.CPTensor((c(I.w2), [m[:, ::-1] for m in c(I.mats)]))]))
    addd("tucker_to_tensor", "", lambda: tl.tucker_to_tensor((c(I.core), c(I.mats))))
    addd("tucker_to_tensor", "skip_factor,transpose", lambda: tl.tucker_to_tensor((c(I.T), c(I.mats)), skip_factor=1, transpose_factors=True))
    addd("tucker_to_unfolded", "", lambda: tl.tucker_to_unfolded((c(I.core), c(I.mats)), 1))
    addd("tucker_mode_dot", "copy=True", lambda: tl.tucker_tensor.tucker_mode_dot((c(I.core), c(I.mats)), c(I.mmats)[1], 1, copy=True))
    addd("tt_to_tensor", "", lambda: tl.tt_to_tensor(c(I.ttf)))
    addd("tt_to_unfolded", "", lambda: tl.tt_tensor.tt_to_unfolded(c(I.ttf), 1))
    addd("tr_to_tensor", "", lambda: tl.tr_tensor.tr_to_tensor(c(I.trf)))
    addd("tt_matrix_to_tensor", "", lambda: tl.tt_matrix.tt_matrix_to_tensor(c(I.ttm)))
    addd("parafac2_to_tensor", "", lambda: tl.parafac2_tensor.parafac2_to_tensor(tr.random_parafac2([(3, 4), (4, 4), (3, 4)], 2, random_state=1)))
    addd("unfold+fold", "", lambda: tl.fold(tl.unfold(c(I.T), 1), 1, (4, 3, 5)))
    addd("partial_tucker", "init=svd (HOSVD), caller's modes list", lambda: D.partial_tucker(c(I.T), [2, 2], modes=I.modes02, n_iter_max=2, init="svd", tol=0))
    addd("tucker", "init=svd, rank list", lambda: D.tucker(c(I.T), I.rank222, n_iter_max=2, init="svd", tol=0))
    addd("tensor_train", "rank list", lambda: D.tensor_train(c(I.T), I.ttrank))
    addd("tensor_ring", "rank list", lambda: D.tensor_ring(c(I.T), I.trrank))
    addd("parafac", "init=svd,fixed_modes list", lambda: D.parafac(c(I.T), 2, n_iter_max=2, init="svd", tol=0, fixed_modes=I.fixed0))
    addd("robust_pca", "", lambda: D.robust_pca(c(I.T), n_iter_max=3, tol=0))
    for k, e in enumerate(E):
        e["key"] = e["fn"] + ("[" + e["opt"] + "]" if e["opt"] else "")
    return E


_REG = None


def registry():
    global _REG
    if _REG is None:
        _REG = {e["key"]: e for e in _entries()}
    return _REG


def entry_keys():
    return list(registry().keys())


# ----------------------------------------------------------------------------- replaying one history
class SubRandomState(np.random.RandomState):
    """a user subclass of RandomState is a RandomState"""


SEEDFORMS = {"int": int, "np.int64": np.int64, "np.uint32": np.uint32}      # how the integer seed is handed over
GENFORMS = {"RandomState": np.random.RandomState, "subclass": SubRandomState,
            "Generator": lambda s: np.random.Generator(np.random.MT19937(s))}   # how "a generator" is handed over
# On the tree this was built on, check_random_state rejects NumPy integer scalars and numpy.random.Generator with a
# ValueError.  A rejection is an outcome (digest of the exception class) and is reproducible; what the forms are
# for is a routine that ACCEPTS such a seed but does not honour it (e.g. silently falls back to the global stream).


def gen_state_digest(r):
    if isinstance(r, np.random.RandomState):
        return state_digest(r.get_state())
    return _h(["Generator", repr(sorted(r.bit_generator.state.items(), key=str))])


PERTURB = [
    lambda: np.random.random_sample(3),
    lambda: (np.random.standard_normal(1), np.random.random_sample(2)),   # leaves a cached gaussian
    lambda: np.random.randint(0, 10, size=5),
    lambda: np.random.shuffle(np.arange(7)),
]


def run_trace(case):
    """case = {id, tr, entry, ops:[{op,e,s,g,o}], seeds:{"1":real,"2":real}, genseed:{"g1":1,"g2":1}, objseed:{"o1":1},
               start: real seed of the global stream at trace start, flavour: index into PERTURB}
    Returns the list of events (Reset first)."""
    ent = registry()[case["entry"]]
    new_trace_arguments()
    import tensorly.tenalg as _ta
    _ta.set_backend(case.get("tenalg", "core"))
    try:
        return _run_trace(case, ent, _ta)
    finally:
        _ta.set_backend("core")
        for k, v in PRISTINE_CONTAINERS.items():        # the Python containers of the fixed inputs are restored per trace
            getattr(inputs(), k)[:] = v


PRISTINE_CONTAINERS = {"modes02": [0, 2], "rank222": [2, 2, 2], "ttrank": [1, 2, 2, 1], "trrank": [2, 2, 2, 2], "fixed0": [0]}


def _run_trace(case, ent, _ta):
    sform = SEEDFORMS[case.get("seedform", "int")]
    real = {int(k): sform(int(v)) for k, v in case["seeds"].items()}
    tab = {}

    def intern(d):
        if d not in tab:
            tab[d] = len(tab) + 1
        return tab[d]

    np.random.seed(int(case["start"]))
    gform = GENFORMS[case.get("genform", "RandomState")]
    gens = {g: gform(int(real[int(ms)]) % 2**32) for g, ms in sorted(case["genseed"].items())}
    # estimator objects constructed ONCE per trace with an integer seed and then fitted repeatedly (class entries only)
    objseed = {o: int(ms) for o, ms in case.get("objseed", {}).items()}
    objs = {}
    if "obj" in ent:
        for o, ms in sorted(objseed.items()):
            try:
                objs[o] = ent["obj"]["make"](real[ms])
            except Exception as ex:          # a constructor that rejects the seed form: every use of the object has
                objs[o] = ex                 # that exception as its outcome

    def the_obj(o):
        if isinstance(objs[o], Exception):
            raise objs[o]
        return objs[o]
    # control path: what the estimator object went through BEFORE the history starts must not matter -- a fit on other
    # data, or a fit that failed (state surviving between calls)
    pre = case.get("prefit", "none")
    if pre == "failing":
        # the caller caught an exception from an earlier call of the routine (data that makes it fail half-way, after it
        # may have drawn numbers) -- with the integer seed and with both twin generators alike -- and carries on
        import os
        sys_fds = [os.dup(1), os.dup(2)]
        null = os.open(os.devnull, os.O_WRONLY)
        os.dup2(null, 1), os.dup2(null, 2)          # LAPACK reports the NaNs on the process' stdout/stderr
        try:
            for rs in [real[1]] + [gens[g] for g in sorted(gens)]:
                _ALT[0] = "broken"
                try:
                    ent["rand"](rs)
                except Exception:
                    pass
                finally:
                    _ALT[0] = False
        finally:
            os.dup2(sys_fds[0], 1), os.dup2(sys_fds[1], 2)
            for fd in sys_fds + [null]:
                os.close(fd)
        np.random.seed(int(case["start"]))
    if pre != "none" and "obj" in ent and pre in ent["obj"]:
        for o in objs:
            try:
                ent["obj"][pre](the_obj(o))
            except Exception:
                pass
        np.random.seed(int(case["start"]))
    perturb = PERTURB[int(case["flavour"]) % len(PERTURB)]

    def obs():
        return {"inp": intern("A" + arguments_digest()),
                "glob": intern("S" + state_digest(np.random.get_state())),
                "gens": {g: intern("S" + gen_state_digest(r)) for g, r in gens.items()}}

    events = []
    ev = {"id": "%s/0" % case["id"], "tr": case["tr"], "ev": "Reset", "entry": case["entry"], "e": "none", "s": 0, "g": "none", "o": "none",
          "b": case.get("tenalg", "core"), "out": "ok", "res": 0, "genseed": {g: int(ms) for g, ms in case["genseed"].items()}, "objseed": objseed}
    ev.update(obs())
    events.append(ev)
    for l, op in enumerate(case["ops"], 1):
        ev = {"id": "%s/%d" % (case["id"], l), "tr": case["tr"], "ev": op["op"], "entry": case["entry"],
              "e": op.get("e", "none"), "s": int(op.get("s", 0)), "g": op.get("g", "none"), "o": op.get("o", "none"), "b": op.get("b", "none"), "out": "ok", "res": 0}
        if op["op"] == "Perturb":
            perturb()
        elif op["op"] == "SwitchBackend":
            _ta.set_backend(op["b"])
        elif op["op"] == "Reseed":
            np.random.seed(int(real[int(op["s"])]) % 2**32)
        else:
            if op["op"] == "CallNone":
                call = ent["det"] if op["e"] == "det" else (lambda: ent["rand"](None))
            elif op["e"] not in ("rand", "alt"):
                raise ValueError("only the seed-accepting entry can be seeded")
            elif op["op"] == "CallInt":
                call = lambda: ent["rand"](real[int(op["s"])])
            elif op["op"] == "CallGen":
                call = lambda: ent["rand"](gens[op["g"]])
            elif op["op"] == "FitObj":          # the SAME object again
                ev["s"] = objseed[op["o"]]
                call = lambda: ent["obj"]["fit"](the_obj(op["o"]))
            elif op["op"] == "CloneFit":        # a new estimator built from get_params() of the (possibly fitted) object
                ev["s"] = objseed[op["o"]]
                call = lambda: ent["obj"]["fit"](ent["obj"]["clone"](the_obj(op["o"])))
            else:
                raise ValueError(op["op"])
            if op["e"] == "alt" and op["op"] in ("FitObj", "CloneFit"):
                raise ValueError("objects are only used with the primary entry")
            _ALT[0] = case.get("altkind", "float32") if op["e"] == "alt" else False
            try:
                ev["res"] = intern("R" + result_digest(call()))
            except Exception as ex:
                # an exception is an outcome like any other: the same seeding must reproduce it (class only:
                # messages may embed numbers); the stream states after it are compared as usual
                ev["out"] = "raised"
                ev["exc"] = "%s: %s" % (type(ex).__name__, str(ex)[:200])
                ev["res"] = intern("X" + type(ex).__name__)
            finally:
                _ALT[0] = False
        ev.update(obs())
        events.append(ev)
    return events
