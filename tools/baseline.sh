#!/bin/sh
# Runs the repository's baseline test command with the guard OFF and compares with BASELINE.json stable_pass.
cd /repo && env -u TENSORLY_VERIF /venv/bin/python -m pytest -ra -q -p no:cacheprovider --timeout=900 --continue-on-collection-errors --junitxml=/tmp/baseline.junit.xml -n 8 > /tmp/baseline.log 2>&1
/venv/bin/python - <<'PY'
import json, xml.etree.ElementTree as ET
base = json.load(open('/root/.vp/BASELINE.json'))
stable = set(base['stable_pass'])
root = ET.parse('/tmp/baseline.junit.xml').getroot()
passed = set()
failed = set()
for tc in root.iter('testcase'):
    name = tc.get('classname') + '::' + tc.get('name')
    bad = any(ch.tag in ('failure', 'error', 'skipped') for ch in tc)
    (failed if bad else passed).add(name)
missing = sorted(stable - passed)
print("stable_pass:", len(stable), "passed now:", len(passed), "stable but not passing now:", len(missing))
for m in missing[:20]:
    print("  MISSING", m)
PY
