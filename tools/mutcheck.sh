#!/bin/sh
# tools/mutcheck.sh <patch.diff> <PID> [extra check args]  -- run a check against a scratch copy of /repo with the patch applied
set -e
PATCH="$1"; PID="$2"; shift 2
D=$(mktemp -d /tmp/mut.XXXXXX)
git -C /repo archive HEAD tensorly | tar -x -C "$D"
(cd "$D" && patch -p1 -s < "$PATCH")
cd /verif && ./check "$PID" --repo "$D" "$@" 2>&1 | grep -E "^(VIOLATION|KNOWN|MACHINERY|C[0-9][0-9] tier)" | cut -c1-220 | sort | uniq -c | sort -rn | head -12
rm -rf "$D"
