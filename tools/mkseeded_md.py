#!/venv/bin/python
"""Rewrites the SEEDED region of DESIGN.md from /verif/seeded/*/meta.json."""
import glob, json, os, re
HERE = os.path.dirname(os.path.dirname(os.path.abspath(__file__)))
rows = ["<!-- SEEDED-BEGIN -->", "| seeded change | property | needs, in order to manifest | demo confirmed | repo tests with the change | caught by (clauses) |", "|---|---|---|---|---|---|"]
n = caught = 0
for f in sorted(glob.glob(os.path.join(HERE, "seeded", "*", "meta.json"))):
    m = json.load(open(f))
    n += 1
    cb = m.get("caught_by", [])
    caught += bool(cb)
    needs = (m.get("summary") or m.get("needs_to_manifest", "").strip().split("\n")[0])[:230].replace("|", "/")
    checks = "; ".join("%s: %s" % (p, ", ".join(v["clauses"][:4]) or ("exit %s" % v["exit"])) for p, v in m.get("checks", {}).items())
    rows.append("| `%s` | %s | %s | %s | %s | %s |" % (m["name"], m["property"], needs, "yes" if m.get("demo_ok") else "NO",
                m.get("tests_tail", "-")[:60], ("**" + ", ".join(cb) + "** — " + checks) if cb else ("MISSED — " + checks)))
rows.append("")
rows.append("%d seeded changes kept, %d caught by at least one check." % (n, caught))
rows.append("<!-- SEEDED-END -->")
p = os.path.join(HERE, "DESIGN.md")
s = open(p).read()
s = re.sub(r"<!-- SEEDED-BEGIN -->.*?<!-- SEEDED-END -->", lambda m: "\n".join(rows), s, flags=re.S)
open(p, "w").write(s)
print(n, "seeded,", caught, "caught")
