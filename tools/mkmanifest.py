#!/venv/bin/python
"""Regenerates /verif/MANIFEST.json from the table below (single source of truth)."""
import json, os
HERE = os.path.dirname(os.path.dirname(os.path.abspath(__file__)))
BASE_OFF = "cd /repo && env -u TENSORLY_VERIF /venv/bin/python -m pytest -ra -q -p no:cacheprovider --timeout=900 --continue-on-collection-errors"

# pid -> (technique, level text, level note, design_ref)
CHECKS = {
 "C17": ("TLC exhaustive model checking of BackendStack.tla + state-graph walk and trace validation with real threads",
         "BackendStack.tla (one action per write of set_backend/backend_context, two managers, 3 threads) is model checked exhaustively for small constants against six clauses of the property; every transition of the operation-grain state graph, random 3-thread programs and free-running concurrent runs are executed on the real managers with real threads and each recorded operation is validated by TLC against the same actions (BackendStackTrace.tla).",
         "Operation-level schedules on the implementation (the two writes of set_backend interleave in the model only); NumPy-derived stand-in backends under the names jax/cupy; TLC, Json module and the rig's observation function are trusted.",
         "DESIGN.md 5/C17"),
}
CHECKS["C01"] = ("TLC-checked index-map specification (TensorIndex.tla) + trace validation of every configuration of the bounded domain",
   "TensorIndex.tla defines unfold/partial_unfold/vec/matricize as index permutations derived from the documented layout and the folds independently in gather form; TLC checks on the spec, for every configuration (all shapes of order<=4, dims<=3, <=36 entries; order 5 in the thorough tier), that the map is a bijection and fold o unfold = id. Every such configuration is then executed by the real functions on label tensors in 9 dtypes (+bool by one-hot superposition) and 4 memory layouts and TLC validates each event (shape, layout, dtype, round trip) by exact equality. Data-obliviousness makes this decide all value assignments of those shapes.",
   "Bounded shapes; NumPy backend only; TLC and the Json module trusted; the harness only builds label tensors and copies results.",
   "DESIGN.md 5/C01")
NOT_YET = {}

def main():
    props = [json.loads(l) for l in open(os.path.join(HERE, "properties.jsonl"))]
    checks = []
    na = []
    for p in props:
        pid = p["id"]
        if pid in CHECKS:
            tech, text, note, ref = CHECKS[pid]
            checks.append({
                "property_id": pid,
                "quick_cmd": "./check %s --tier quick" % pid,
                "thorough_cmd": "./check %s --tier thorough" % pid,
                "evidence_file": "/verif/evidence/%s.json" % pid,
                "replay_cmd_template": "./check %s --replay {path}" % pid,
                "engine": "tlc",
                "level_claimed": {"category": "model_checking", "text": text, "design_ref": ref},
                "level_note": note,
                "technique": tech,
            })
        else:
            na.append({"property_id": pid, "reason": NOT_YET.get(pid, "check not built yet in this round (planned: see DESIGN.md section 5); not claimed until its TLA+ specification and binding exist")})
    man = {
        "version": 1,
        "setup_cmd": "cd /verif && ./setup.sh",
        "hooks": {"guard": "TENSORLY_VERIF", "enable": "no build step: tensorly is pure Python and imported from /repo's working tree; ./check exports TENSORLY_VERIF=1",
                  "baseline_off_cmd": BASE_OFF, "source_commits": [], "add_only": True},
        "engines": [{"name": "tlc", "path": "/verif/harness/tlc.py", "serves_properties": sorted(CHECKS),
                     "kind_free_text": "TLC 1.8.0 explicit-state model checker on the TLA+ specifications in /verif/spec; trace validation of recorded implementation events; spec-generated behaviours replayed into tensorly"}],
        "checks": checks,
        "notes": "All verdicts are produced by TLC from explicit TLA+ specifications (spec/*.tla); Python only generates inputs from spec-defined domains, drives tensorly and projects results. See DESIGN.md.",
        "not_applicable": na,
    }
    json.dump(man, open(os.path.join(HERE, "MANIFEST.json"), "w"), indent=1)
    print("MANIFEST.json:", len(checks), "checks,", len(na), "not_applicable")

if __name__ == "__main__":
    main()
