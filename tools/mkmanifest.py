#!/venv/bin/python
"""Regenerates /verif/MANIFEST.json from the table below (single source of truth)."""
import json, os
HERE = os.path.dirname(os.path.dirname(os.path.abspath(__file__)))
BASE_OFF = "cd /repo && env -u TENSORLY_VERIF /venv/bin/python -m pytest -ra -q -p no:cacheprovider --timeout=900 --continue-on-collection-errors"

# pid -> (technique, level text, level note, design_ref)
CHECKS = {
 "C17": ("TLC exhaustive model checking of BackendStack.tla + state-graph walk and trace validation with real threads",
         "BackendStack.tla (one action per write of set_backend/backend_context, two managers, 3 threads) is model checked exhaustively for small constants against six clauses of the property; every transition of the operation-grain state graph, random 3-thread programs and free-running concurrent runs are executed on the real managers with real threads and each recorded operation is validated by TLC against the same actions (BackendStackTrace.tla).",
         "Operation-level schedules on the implementation (the two writes of set_backend interleave in the model only); NumPy-derived stand-in backends under the names jax/cupy; TLC, Json module and the rig's observation function are trusted.",
         "DESIGN.md 5/C17"),
}
CHECKS["C01"] = ("TLC-checked index-map specification (TensorIndex.tla) + trace validation of every configuration of the bounded domain",
   "TensorIndex.tla defines unfold/partial_unfold/vec/matricize as index permutations derived from the documented layout and the folds independently in gather form; TLC checks on the spec, for every configuration (all shapes of order<=4, dims<=3, <=36 entries; order 5 in the thorough tier), that the map is a bijection and fold o unfold = id. Every such configuration is then executed by the real functions on label tensors in 9 dtypes (+bool by one-hot superposition) and 4 memory layouts and TLC validates each event (shape, layout, dtype, round trip) by exact equality. Data-obliviousness makes this decide all value assignments of those shapes.",
   "Bounded shapes; NumPy backend only; TLC and the Json module trusted; the harness only builds label tensors and copies results.",
   "DESIGN.md 5/C01")

_DRV_NOTE = ("Prefix runs on small tensors (orders 2-4) drawn from VERIF_SEED; float64, NumPy backend; tolerances are the named constants of "
             "DriverTrace.tla; a call that raises carries no obligation; TLC, the Json module and the harness's definitional measurements "
             "(norms, Gram deviations, minima, dense reconstructions) are trusted.")
CHECKS["C06"] = ("TLC model checking of the error-ownership skeleton Driver.tla + trace validation of prefix runs and callbacks of 11 iterative decompositions",
   "Driver.tla models the control skeleton of the iterative decompositions with ownership of error values as state (which iterate each reported error belongs to, on every exit path, with line search and callbacks); TLC checks LastErrOwnsReturned / OwnersIncreasing / CallbackFresh / ErrsLenLaw for every algorithm, option set, cap <= 12, stop point and line-search outcome, and witness runs show that each as-found deviation (F06c, F06d, parafac2 stale entry) violates an invariant. Every prefix run n_iter_max = 0..K of the real code is a complete behaviour of the model: DriverTrace.tla computes the model's reachable Return states for that cap and accepts the run iff the list length is explained, all values are finite, the last value equals the recomputed true error of the returned decomposition (2e-6), shorter runs are prefixes of longer ones, and every callback error equals the error of the iterate passed with it.",
   _DRV_NOTE, "DESIGN.md 5/C06")
CHECKS["C07"] = ("TLC-validated monotonicity of recomputed objectives over consecutive prefix runs (Driver.tla skeleton, DriverTrace.tla clauses)",
   "For the exact block-coordinate algorithms (CP-ALS incl. line search, HALS NN-CP, HOOI, PARAFAC2, TR-ALS, CMTF) consecutive prefix runs are consecutive iterates (PrefixStable in the spec); TLC rejects a trace when the recomputed relative error of D_k exceeds that of D_{k-1} by more than 5e-7 with well-conditioned blocks (measured cond <= 1e6) or when the reported list increases.",
   _DRV_NOTE + " hals_nnls and the ridge regressors are not yet bound (see DESIGN.md).", "DESIGN.md 5/C07")
CHECKS["C08"] = ("TLC model checking of canonical form at Return on both exit paths (Driver.tla) + trace validation of structure measurements",
   "Driver.tla carries the canonical-form flag through Sweep / Normalise / both exits; TLC checks CanonAtReturn for all algorithms and caps and the witness F08a (break skips normalisation) violates it. Prefix runs with tol=0 (cap exit) and loose tolerances (convergence exit) log factor shapes, ranks, boundary/ring ranks, orthonormality of Tucker factors and PARAFAC2 projections, core-equals-projection, shared cross product, unit column norms / all-ones weights; DriverTrace.tla judges each returned object.",
   _DRV_NOTE + " TT-SVD left-orthogonality and fractional rank specifications are covered by C09's check / not covered (see DESIGN.md).", "DESIGN.md 5/C08")
CHECKS["C10"] = ("TLC trace validation of sign measurements of every returned array against the spec's obligation table (Driver.tla / DriverTrace.tla)",
   "The spec's table Obliged(cfg) states which returned arrays must be non-negative per algorithm and nn_modes (PARAFAC2 mode 1 exempt as documented); every prefix run 0..K on signed / all-negative / sparse / integer data with built-in and non-negative user initialisations logs the minimum of each returned array and TLC rejects any negative obliged array.",
   _DRV_NOTE, "DESIGN.md 5/C10")
CHECKS["C14"] = ("TLC model checking of ZeroBudgetReturnsInit / FixedUntouched (Driver.tla) + trace validation of warm-start measurements",
   "Driver.tla checks that a zero budget returns version 0 of the represented tensor, that sweeps touch only non-fixed modes (documented last-mode exemption in the spec's table) and that all-fixed short-circuits. Runs from user initialisations with unit / positive / negative / mixed weights log the distance between the dense result of the zero-budget run and the tensor the initialisation represents, bit-identity of every factor, and the distance between the run from (w, Fs) and the twin run from the weights-absorbed initialisation for budgets 0..5; TLC judges each.",
   _DRV_NOTE, "DESIGN.md 5/C14")
CHECKS["C15"] = ("TLC-checked ownership contract (Ownership.tla exemption table) + stateful trace validation of argument digests over 844 entry x kind calls",
   "Ownership.tla states the contract (every argument slot outside the documented exemption table keeps its digest across Call/Return/Raise) and TLC checks it on a small model with a witness; a registry of 154 public entry points x argument kinds (views, tuples/lists/wrappers, masks, fixed-mode and coefficient lists, user initialisations, raising variants) is run twice on the same argument objects and every slot digest before/after is validated by OwnershipTrace.tla.",
   "Digests are value digests (sha-256 of bytes+dtype+shape; containers: type, length, children); identity is covered by re-digesting the caller's own objects; generators/callables are opaque; NumPy backend only.", "DESIGN.md 5/C15")
CHECKS["C18"] = ("TLC-checked dtype lattice and obligation table (Dtype.tla) + trace validation of the dtype of every returned array",
   "Dtype.tla defines the promotion lattice twice (Hasse diagram and NumPy's table) and TLC proves them equal plus the leak classification total; the obligation table lists per entry point which returned slots must keep the input dtype and the documented exemptions; the registry is run in float32, float64 and (where supported) complex128 and DtypeTrace.tla judges every returned array, naming the leak class.",
   "Only ndarray results are obliged (scalars are logged, not judged); NumPy backend only; the registry's list of complex-capable entry points follows the repository's tests.", "DESIGN.md 5/C18")

CHECKS["C02"] = ("TLC-checked textbook index formulas over Gaussian integers (Multilinear.tla, cross-identities as theorems) + exact trace validation under both tenalg backends",
   "Multilinear.tla writes mode_dot, multi_mode_dot, kronecker, khatri_rao, inner, outer, batched_outer, tensordot, MTTKRP (default and memory-efficient), higher_order_moment and sampled Khatri-Rao rows as index formulas over Gaussian integers; TLC checks cross-identities between them in every enumerated configuration (guarding the spec against its own typos). Every configuration of the spec-defined domain (operand orders 1-4, dims 1-3, all modes/options, must-raise families) is executed under the core AND the einsum backend with integer real and complex draws; MultilinearTrace.tla recomputes the formula and demands exact equality of shape and every entry.",
   "Shapes/options enumerated (deterministically thinned by a spec-defined hash), operand values drawn from VERIF_SEED in -3..3 (multilinearity: thorough tier uses 8 draws); float64 arithmetic on these integers is exact; NumPy backend only.", "DESIGN.md 5/C02")
CHECKS["C03"] = ("TLC-checked exact contraction semantics of the six tensor formats (Factorized.tla) + exact trace validation of every conversion/view, tuple and wrapper inputs, both tenalg backends",
   "Factorized.tla defines CP / Tucker / TT / TR / TT-matrix / PARAFAC2 dense reconstructions, views, norms, shape/rank functions and validity predicates over exact integers; TLC checks theorems on the spec in every configuration (Gram-shortcut norm = sum of squares, unfolded view formula, TR with boundary 1 = TT, TR cyclicity, padding of uneven PARAFAC2 slices ...). Each configuration (orders 2-4, sizes 1-3, ranks 1-3, weights present/absent/negative, masks) is run through the real conversion functions and wrapper methods under both tenalg backends with integer factors; FactorizedTrace.tla demands exact equality of dense, every unfolding, vec, matrix, slices, shape, rank and norm, and that the three named invalid classes are rejected by validators and constructors.",
   "Bounded shapes/ranks; integer factor values from VERIF_SEED (exact float64 arithmetic); NumPy backend only.", "DESIGN.md 5/C03")
CHECKS["C04"] = ("TLC-checked relational transform specifications (Transforms.tla, reference transforms preserve dense + canonical form) + trace validation of measured outputs",
   "Transforms.tla gives exact integer reference transforms (flip, normalise on axis inputs, permute, pad, mode products, projections) and TLC checks that each preserves the dense tensor, establishes its canonical form and is idempotent; acceptance predicates on measured outputs (dense equal to the spec's exact dense within 2e-5, unit columns, non-negative weights/summaries, padded ranks with kept boundary, aligned permutation where the optimum is unique, orthonormal projections). Every configuration incl. the degenerate inputs (zero / zero-mean columns, negative weights, rank 1) goes through cp_normalize, tucker_normalize, parafac2_normalise, cp_flip_sign, cp_permute_factors, pad_tt_rank, cp/tucker_mode_dot (matrix/vector, keep_dim, copy), CP->PARAFAC2 and SVD compress/decompress; TransformsTrace.tla judges each.",
   "Outputs are floating point: compared quantised with the named tolerances of Transforms.tla; dense reconstructions of outputs are computed by numpy einsum in the harness; deterministic 1-in-6 thinning of large option products in the quick tier.", "DESIGN.md 5/C04")

CHECKS["C05"] = ("TLC-checked SVD contract on generalised permutation matrices (SVDContract.tla: clamp, shapes, exact spectrum, Eckart-Young optimum proven optimal against competitors) + trace validation of every method/option",
   "SVDContract.tla defines the n_eigenvecs clamp, the documented output shapes per method, the exact spectrum and best rank-k error of generalised permutation matrices (TLC checks in all 27 184 matrix states that A^T A is diagonal, the Eckart-Young value telescopes, is optimal against every competitor and attained) and the obligations per option (sign resolution on U or V without changing the product, non-negativity, randomized exact only when rank is covered). A stratified sample of matrices x every option combination (3 built-in methods + callable, k from 1 past max and None, flip off/U/V, non_negative off/nndsvda/nndsvd, interface and direct calls) is executed and SVDContractTrace.tla judges shapes, spectrum, orthonormality, error, sign canonicity and non-negativity; the thorough tier adds a LAPACK-measured tier on dense matrices up to 6x8.",
   "Exact tier: quantised comparisons with the tolerances named in the spec (1e-6 on S, 2e-6 on error^2, 1e-8 on orthonormality); measured tier trusts numpy.linalg.svd as instrument; vectors beyond len(S) are not obliged; known finding F-05a (symeig_svd on rank-deficient input).", "DESIGN.md 5/C05")
CHECKS["C09"] = ("TLC-checked discarded-tail arithmetic and rank clipping of Tucker / TT / TT-matrix / TR (SVDDecomp.tla) on matching tensors with exactly known spectra + trace validation",
   "SVDDecomp.tla defines, from the spectrum of every (sequential) unfolding and a rank vector, the expected clipped ranks and the bounds max tail <= err^2 <= sum of tails (TR bounds derived in the module header); TLC checks on the spec that matching tensors (non-zeros pairwise different in every coordinate) have generalised-permutation unfoldings, that the sequential-truncation model error lies within the bounds and that covering ranks give zero. Every rank configuration (1 to beyond the mode sizes, all TR starting modes, requests that must raise) runs on seeded matching tensors with the exact SVD methods and HOOI 0/1/50 iterations; SVDDecompTrace.tla judges outcome, ranks, exactness and both bounds; the thorough tier adds measured spectra on dense tensors.",
   "Exact tier on matching tensors (integer err^2); measured tier trusts numpy SVD of the unfoldings; slack J+2 quanta at 1e-6; TT-matrix orders 2 and 4 only.", "DESIGN.md 5/C09")
CHECKS["C11"] = ("TLC-checked constraint-specification semantics (Constraints.tla: scalar/list/dict -> per-mode assignment or Reject, feasibility predicates proven against textbook definitions) + trace validation of validate_constraints and constrained_parafac",
   "Constraints.tla transcribes the documented specification semantics; TLC checks on every enumerated specification (26 078 quick / 91 478 thorough) that the mapping is a function, that Reject holds exactly when two keywords share a mode, that an operational reading agrees under every processing order, and checks each feasibility predicate against textbook definitions on all small columns. Binding 1: every specification goes to validate_constraints per mode and to constrained_parafac: raised iff Reject, assigned kind/parameter equal the spec's on requested modes. Binding 2: accepted specifications x data x rank x init x (outer, inner) budgets run through constrained_parafac and ConstraintsTrace.tla judges the logged factor measurements against the feasibility predicate of the kind the spec assigns.",
   "Binding 2 is sampled from VERIF_SEED; where the docs leave the scope open (whole factor vs column-wise) either reading is accepted; LinAlgError carries no obligation; tolerance 1e-6.", "DESIGN.md 5/C11")
CHECKS["C16"] = ("TLC exhaustive model checking of RngStreams.tla (streams as (seed, consumption history)) + state-graph walk and random histories replayed on 70 seed-accepting entry points, validated by RngStreamsTrace.tla",
   "RngStreams.tla models the global stream, generators and seeded calls; TLC checks SameSeedSameResult, TwinGeneratorsAgree, DeterministicNoSeed, ReseedReproducible and the action properties IntSeedLeavesGlobal / IntSeedLeavesGenerators / GenCallOwnStreamOnly on every interleaving of <= 6 operations, with as-found variants as violated witnesses. Every transition of the labelled state graph plus random histories are replayed on each of 70 real entry-point variants (random generators, randomly initialised CP / Tucker / PARAFAC2 / constrained CP / TR-ALS / sampled variants / TT-cross, randomized SVD, regressors, class wrappers) logging digests of the global state, generator states and results; the trace spec binds abstract streams/results to digests and rejects any disagreement.",
   "Bit-identity required only where the property says so; single BLAS thread; exceptions count as outcomes and must reproduce; NumPy backend only.", "DESIGN.md 5/C16")
NOT_YET = {}

def main():
    props = [json.loads(l) for l in open(os.path.join(HERE, "properties.jsonl"))]
    checks = []
    na = []
    for p in props:
        pid = p["id"]
        if pid in CHECKS:
            tech, text, note, ref = CHECKS[pid]
            checks.append({
                "property_id": pid,
                "quick_cmd": "./check %s --tier quick" % pid,
                "thorough_cmd": "./check %s --tier thorough" % pid,
                "evidence_file": "/verif/evidence/%s.json" % pid,
                "replay_cmd_template": "./check %s --replay {path}" % pid,
                "engine": "tlc",
                "level_claimed": {"category": "model_checking", "text": text, "design_ref": ref},
                "level_note": note,
                "technique": tech,
            })
        else:
            na.append({"property_id": pid, "reason": NOT_YET.get(pid, "check not built yet in this round (planned: see DESIGN.md section 5); not claimed until its TLA+ specification and binding exist")})
    man = {
        "version": 1,
        "setup_cmd": "cd /verif && ./setup.sh",
        "hooks": {"guard": "TENSORLY_VERIF", "enable": "no build step: tensorly is pure Python and imported from /repo's working tree; ./check exports TENSORLY_VERIF=1",
                  "baseline_off_cmd": BASE_OFF, "source_commits": [], "add_only": True},
        "engines": [{"name": "tlc", "path": "/verif/harness/tlc.py", "serves_properties": sorted(CHECKS),
                     "kind_free_text": "TLC 1.8.0 explicit-state model checker on the TLA+ specifications in /verif/spec; trace validation of recorded implementation events; spec-generated behaviours replayed into tensorly"}],
        "checks": checks,
        "notes": "All verdicts are produced by TLC from explicit TLA+ specifications (spec/*.tla); Python only generates inputs from spec-defined domains, drives tensorly and projects results. See DESIGN.md.",
        "not_applicable": na,
    }
    json.dump(man, open(os.path.join(HERE, "MANIFEST.json"), "w"), indent=1)
    print("MANIFEST.json:", len(checks), "checks,", len(na), "not_applicable")

if __name__ == "__main__":
    main()
