#!/venv/bin/python
"""tools/seedbatch.py <PID> <outdir> <nameprefix> [extra checks...] -- run seedcheck for mut1/mut2 of an agent's out dir,
choosing the repository tests from the files the patch touches."""
import os, re, subprocess, sys
pid, out, prefix = sys.argv[1:4]
extra = sys.argv[4:]
for k in ("1", "2", "3"):
    patch = os.path.join(out, "mut%s.diff" % k)
    if not os.path.exists(patch):
        continue
    files = re.findall(r"^\+\+\+ b/(\S+)", open(patch).read(), re.M)
    tests = set()
    for f in files:
        d = os.path.dirname(f)
        while d and d != "tensorly":
            if os.path.isdir(os.path.join("/repo", d, "tests")):
                tests.add(d + "/tests")
                break
            d = os.path.dirname(d)
        else:
            tests.add("tensorly/tests")
    tests.add("tensorly/tests")
    # decompositions are slow: restrict to the modules named like the touched file
    tl = []
    for t in sorted(tests):
        if t == "tensorly/decomposition/tests":
            stems = [os.path.basename(f).strip("_").replace(".py", "") for f in files if "decomposition" in f]
            mods = [os.path.join(t, x) for x in os.listdir("/repo/" + t) if any(s.replace("_", "")[:5] in x.replace("_", "") for s in stems)]
            tl += mods or [t]
        else:
            tl.append(t)
    cmd = ["/verif/tools/seedcheck.py", pid, out, k, "--tests", " ".join(tl), "--checks", " ".join([pid] + extra), "--name", "%s-%s" % (prefix, k)]
    r = subprocess.run(cmd, capture_output=True, text=True)
    lines = [l for l in r.stdout.split("\n") if l.startswith(("demo", "tests", "check", "recorded", "PATCH"))]
    print("== %s-%s\n   " % (prefix, k) + "\n   ".join(lines))
