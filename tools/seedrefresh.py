#!/venv/bin/python
"""tools/seedrefresh.py <seeded-id> [CHECK ...]  -- re-run checks against a recorded seeded change (after strengthening).

Applies /verif/seeded/<id>/patch.diff to a scratch copy of /repo HEAD (if it still applies), runs the given checks
(default: the property's own check, plus those that caught it before) with --repo, and updates meta.json: `checks`,
`caught_by`, and a `history` line saying what the first run had missed.  The scratch copy is removed afterwards."""
import json, os, shutil, subprocess, sys, tempfile

sid = sys.argv[1]
d = os.path.join("/verif/seeded", sid)
meta = json.load(open(os.path.join(d, "meta.json")))
checks = sys.argv[2:] or sorted(set([meta["property"]] + list(meta.get("caught_by", []))))
mut = tempfile.mkdtemp(prefix="seed.", dir="/tmp")
try:
    subprocess.run("git -C /repo archive HEAD | tar -x -C %s" % mut, shell=True, check=True)
    r = subprocess.run("patch -p1 -s -d %s < %s" % (mut, os.path.join(d, "patch.diff")), shell=True, capture_output=True, text=True)
    if r.returncode != 0:
        print(sid, "PATCH NO LONGER APPLIES to HEAD (the code it changed was repaired since):", (r.stdout + r.stderr)[-200:])
        meta.setdefault("history", []).append("patch no longer applies to /repo HEAD %s" % subprocess.run(
            ["git", "-C", "/repo", "rev-parse", "--short", "HEAD"], capture_output=True, text=True).stdout.strip())
        json.dump(meta, open(os.path.join(d, "meta.json"), "w"), indent=1)
        sys.exit(0)
    before = list(meta.get("caught_by", []))
    for pid in checks:
        r = subprocess.run(["./check", pid, "--repo", mut], cwd="/verif", capture_output=True, text=True, timeout=7200)
        lines = [l for l in r.stdout.split("\n") if l.startswith(("VIOLATION", "MACHINERY"))]
        clauses = sorted({l.split("clause=")[-1] for l in lines if "clause=" in l})
        meta.setdefault("checks", {})[pid] = {"exit": r.returncode, "violation_lines": len(lines), "clauses": clauses[:12]}
        print("%s check %s: exit=%s violations=%d clauses=%s" % (sid, pid, r.returncode, len(lines), clauses[:6]))
    meta["caught_by"] = [p for p, v in meta["checks"].items() if v["exit"] == 1]
    if not before and meta["caught_by"]:
        meta.setdefault("history", []).append("missed by the first run; caught after strengthening (%s)" % ", ".join(meta["caught_by"]))
    json.dump(meta, open(os.path.join(d, "meta.json"), "w"), indent=1)
finally:
    shutil.rmtree(mut, ignore_errors=True)
