#!/bin/sh
# tools/seeds.sh "<seeds>" PID...   -- run each check with several seeds; print one line per run
SEEDS="$1"; shift
for P in "$@"; do for S in $SEEDS; do
  cd /verif && VERIF_SEED=$S ./check $P 2>&1 | grep -E "^(VIOLATION|MACHINERY|KNOWN|C[0-9]+ tier)" | cut -c1-260 | sed 's/replay=[^ ]*\///' | sort | uniq -c | sort -rn | head -6 | sed "s/^/[$P seed=$S] /"
done; done
