#!/bin/sh
# tools/applyfix.sh <F-id> "<commit subject after 'fix: '>" ["body"]
set -e
F="$1"; SUBJ="$2"; BODY="$3"
cd /repo
git diff --quiet || { echo "repo dirty"; exit 1; }
patch -p1 --no-backup-if-mismatch < /verif/fixes/$F.diff
git add -A
if [ -n "$BODY" ]; then git commit -q -m "fix: $SUBJ" -m "$BODY"; else git commit -q -m "fix: $SUBJ"; fi
git log --oneline | head -1
