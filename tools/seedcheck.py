#!/venv/bin/python
"""tools/seedcheck.py <PID> <srcdir> <k> [--tests "<pytest targets>"] [--checks "C06 C07"] [--name NAME]

Confirms an independently seeded change and records it under /verif/seeded/<NAME>/:
  1. demo<k>.py passes on a clean scratch copy of /repo HEAD and fails with mut<k>.diff applied,
  2. the given repository tests still pass with the change,
  3. runs the check(s) against the mutated copy (./check PID --repo COPY) and records whether they report a VIOLATION.
The scratch copies live under /tmp and are removed afterwards.
"""
import argparse, json, os, shutil, subprocess, sys, tempfile, time

ap = argparse.ArgumentParser()
ap.add_argument("pid"); ap.add_argument("src"); ap.add_argument("k")
ap.add_argument("--tests", default=""); ap.add_argument("--checks", default=""); ap.add_argument("--name", default="")
ap.add_argument("--tier", default="quick")
a = ap.parse_args()
name = a.name or "%s-%s" % (a.pid, a.k)
patch = os.path.join(a.src, "mut%s.diff" % a.k)
demo = os.path.join(a.src, "demo%s.py" % a.k)
notes = os.path.join(a.src, "notes%s.md" % a.k)
env = dict(os.environ, OPENBLAS_NUM_THREADS="1", OMP_NUM_THREADS="1", PYTHONWARNINGS="ignore")


def copy_of_repo(with_patch):
    d = tempfile.mkdtemp(prefix="seed.", dir="/tmp")
    subprocess.run("git -C /repo archive HEAD | tar -x -C %s" % d, shell=True, check=True)
    if with_patch:
        r = subprocess.run(["git", "apply", "--unsafe-paths", "--directory=" + d, patch], cwd="/", capture_output=True, text=True)
        if r.returncode != 0:
            r = subprocess.run("patch -p1 -s -d %s < %s" % (d, patch), shell=True, capture_output=True, text=True)
            if r.returncode != 0:
                print("PATCH DOES NOT APPLY:", r.stdout, r.stderr); shutil.rmtree(d); sys.exit(3)
    return d


def run_demo(d):
    e = dict(env, PYTHONPATH=d)
    r = subprocess.run(["/venv/bin/python", demo], cwd=d, env=e, capture_output=True, text=True, timeout=1800)
    return r.returncode, (r.stdout + r.stderr)[-600:]

clean, mut = copy_of_repo(False), copy_of_repo(True)
meta = {"name": name, "property": a.pid, "source": "fresh sub-agent given only the property text and a scratch worktree",
        "repo_commit": subprocess.run(["git", "-C", "/repo", "rev-parse", "--short", "HEAD"], capture_output=True, text=True).stdout.strip()}
try:
    rc_clean, out_clean = run_demo(clean)
    rc_mut, out_mut = run_demo(mut)
    meta["demo_on_clean_rc"], meta["demo_on_mutant_rc"] = rc_clean, rc_mut
    meta["demo_ok"] = rc_clean == 0 and rc_mut != 0
    print("demo: clean rc=%s  mutant rc=%s  -> %s" % (rc_clean, rc_mut, "OK" if meta["demo_ok"] else "NOT CONFIRMED"))
    if not meta["demo_ok"]:
        print(out_clean[-300:], "\n---\n", out_mut[-300:])
    if a.tests:
        t0 = time.time()
        r = subprocess.run("/venv/bin/python -m pytest -q -p no:cacheprovider -p no:randomly -x -n 6 --deselect tensorly/tests/test_backend.py::test_svd_time %s" % a.tests, shell=True, cwd=mut,
                           env=dict(env, PYTHONPATH=mut), capture_output=True, text=True, timeout=3600)
        tail = (r.stdout + r.stderr).strip().split("\n")[-1]
        meta["tests_run"], meta["tests_rc"], meta["tests_tail"] = a.tests, r.returncode, tail
        print("tests: rc=%s %s (%.0fs)" % (r.returncode, tail, time.time() - t0))
    meta["checks"] = {}
    for pid in (a.checks or a.pid).split():
        r = subprocess.run(["./check", pid, "--repo", mut, "--tier", a.tier], cwd="/verif", capture_output=True, text=True, timeout=7200)
        lines = [l for l in r.stdout.split("\n") if l.startswith(("VIOLATION", "MACHINERY"))]
        clauses = sorted({l.split("clause=")[-1] for l in lines if "clause=" in l})
        meta["checks"][pid] = {"exit": r.returncode, "violation_lines": len(lines), "clauses": clauses[:12]}
        print("check %s: exit=%s violations=%d clauses=%s" % (pid, r.returncode, len(lines), clauses[:8]))
finally:
    shutil.rmtree(clean, ignore_errors=True); shutil.rmtree(mut, ignore_errors=True)
out = os.path.join("/verif/seeded", name)
os.makedirs(out, exist_ok=True)
shutil.copy(patch, os.path.join(out, "patch.diff"))
shutil.copy(demo, os.path.join(out, "demo.py"))
if os.path.exists(notes):
    meta["needs_to_manifest"] = open(notes).read()[:3000]
meta["caught_by"] = [p for p, v in meta["checks"].items() if v["exit"] == 1]
json.dump(meta, open(os.path.join(out, "meta.json"), "w"), indent=1)
print("recorded in", out, "caught_by=", meta["caught_by"])
