#!/bin/sh
# tools/runall.sh [tier] [seed] -- run every registered check on /repo itself (rewrites evidence/), one summary line each
TIER=${1:-quick}; SEED=${2:-0}
cd /verif
for P in C01 C02 C03 C04 C05 C06 C07 C08 C09 C10 C11 C12 C13 C14 C15 C16 C17 C18 C19 C20; do
  VERIF_SEED=$SEED ./check $P --tier $TIER > /tmp/runall.$P.log 2>&1; rc=$?
  echo "rc=$rc $(grep -E "^$P tier" /tmp/runall.$P.log | cut -c1-160) $(grep -c '^VIOLATION' /tmp/runall.$P.log) viol-lines $(grep -c '^KNOWN' /tmp/runall.$P.log) known-lines"
done
python3-vt - <<'PY'
import json, jsonschema, glob
s = json.load(open('/root/.vp/EVIDENCE.schema.json'))
bad = 0
for f in sorted(glob.glob('/verif/evidence/C*.json')):
    try:
        jsonschema.validate(json.load(open(f)), s)
    except Exception as e:
        bad += 1; print("INVALID", f, str(e)[:200])
jsonschema.validate(json.load(open('/verif/MANIFEST.json')), json.load(open('/root/.vp/MANIFEST.schema.json')))
print("evidence files valid:", bad == 0)
PY
