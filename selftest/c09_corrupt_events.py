"""Self-test of the C09 binding: genuine events plus copies with a single field corrupted.
Run:  cd /verif && /venv/bin/python selftest/c09_corrupt_events.py   (prints the REJECT tuples; genuine events must be absent)"""
import copy, shutil, sys, warnings
sys.path.insert(0, "/repo"); sys.path.insert(0, "/verif")
warnings.filterwarnings("ignore")
from harness.common import Check
from harness.drivers import c09

chk = Check("C09X")
ten = {"op": "matching", "shape": [4, 4, 3], "idx": [[0, 3, 0], [1, 1, 2], [3, 2, 1]], "vals": [5, -3, 2]}
def case(i, op, rank, mode=0, svd="truncated_svd", iters=0, t=ten):
    return {"id": i, "cfg": {"op": op, "shape": t["shape"], "rank": rank, "mode": mode}, "ten": t, "svd": svd, "iters": iters, "seed": 5}
good = [c09.execute(case("good_tucker", "tucker", [2, 1, 3], iters=1)),
        c09.execute(case("good_tt", "tt", [1, 2, 2, 1])),
        c09.execute(case("good_tt_full", "tt", [1, 4, 3, 1], svd="symeig_svd")),
        c09.execute(case("good_tr", "tr", [1, 2, 2, 1], mode=1)),
        c09.execute(case("good_tr_raise", "tr", [2, 3, 1, 2], mode=0)),
        c09.execute(case("good_measured", "tt", [1, 2, 3, 1], t={"op": "measured", "shape": [3, 4, 5], "fam": "generic", "tseed": 7, "lr": 2}))]
evs = list(good)
def mut(name, k, f):
    e = copy.deepcopy(good[k]); e["id"] = name; f(e); evs.append(e)
mut("err_below_lower_bound", 0, lambda e: e["out"].__setitem__("err2_q", e["out"]["err2_q"] - 5000000))
mut("err_above_upper_bound", 1, lambda e: e["out"].__setitem__("err2_q", e["out"]["err2_q"] + 30000000))
mut("not_exact_at_full_rank", 2, lambda e: e["out"].__setitem__("err2_q", 40))
mut("rank_exceeds_request", 1, lambda e: e["out"]["ranks"].__setitem__(1, 3))
mut("nan_error", 3, lambda e: e["out"].__setitem__("fin", False))
mut("should_have_raised", 4, lambda e: e["out"].update(raised=False, exc="none", ranks=[2, 3, 1, 2], fin=True))
mut("wrong_exception", 4, lambda e: e["out"].__setitem__("exc", "IndexError"))
mut("raised_without_reason", 1, lambda e: e["out"].update(raised=True, exc="ValueError"))
mut("input_tensor_changed", 1, lambda e: e["data"].__setitem__(1, 4))
mut("not_matching", 1, lambda e: e["ten"]["idx"].__setitem__(1, [1, 3, 2]))
mut("measured_above_upper", 5, lambda e: e["out"].__setitem__("err2_q", 100000000))
mut("measured_below_lower", 5, lambda e: e["out"].__setitem__("err2_q", 0))
mut("int_spec_for_nonuniform_rank", 0, lambda e: e.__setitem__("rspec", "int"))
mut("none_spec_with_truncating_rank", 0, lambda e: e.__setitem__("rspec", "none"))
mut("computed_ranks_break_boundary", 1, lambda e: (e.__setitem__("rspec", "same"), e["out"]["ranks"].__setitem__(0, 2)))
mut("computed_raise_not_ring", 1, lambda e: (e.__setitem__("rspec", "same"), e["out"].update(raised=True, exc="ValueError")))
mut("unknown_call_path", 1, lambda e: e.__setitem__("via", "magic"))
mut("int_dtype_on_real_data", 5, lambda e: e.__setitem__("dtype", "int64"))
mut("unknown_dtype", 1, lambda e: e.__setitem__("dtype", "float16"))
mut("measured_tails_not_monotone", 5, lambda e: e["tails"][0].__setitem__(2, e["tails"][0][1] + 5))
mut("symeig_gram_not_representable", 1, lambda e: (e.__setitem__("svd", "symeig_svd"), e.__setitem__("pow2", 650)))
mut("single_precision_error_on_double_input", 2, lambda e: e["out"].__setitem__("rel_q", 200000))      # 2e-7: float32-level
e32 = copy.deepcopy(good[2]); e32["id"] = "good_float32_level_error_on_float32_input"; e32["dtype"] = "float32"; e32["out"]["rel_q"] = 200000
good.append(e32); evs.append(e32)
mut("unknown_mode_spelling", 3, lambda e: e.__setitem__("mspec", "uint8"))
mut("documented_form_must_not_be_refused", 3, lambda e: e["out"].update(raised=True, exc="ValueError", about_rank=False))
en = copy.deepcopy(good[3]); en["id"] = "good_negative_mode_refused"; en["mspec"] = "neg"; en["out"].update(raised=True, exc="ValueError", about_rank=False)
good.append(en); evs.append(en)
rot = {"op": "rotated", "shape": [3, 6, 6, 4], "idx": [[0, 2, 5, 1], [2, 4, 0, 3]], "vals": [5, -2], "exps": [0, -30], "tseed": 11}
g1 = c09.execute(dict(case("good_graded_exact", "tt", [1, 2, 2, 2, 1], t=rot), rspec="list", frac=0, via="function", pow2=0, dtype="float64"))
g2 = c09.execute(dict(case("good_graded_truncated", "tt", [1, 1, 2, 2, 1], t=rot), rspec="list", frac=0, via="function", pow2=0, dtype="float64"))
good += [g1, g2]; evs += [g1, g2]
def mutg(name, g, f):
    e = copy.deepcopy(g); e["id"] = name; f(e); evs.append(e)
mutg("graded_component_lost", g1, lambda e: e["out"].__setitem__("rel_q", 900))                       # 9e-10 relative
mutg("graded_above_bound", g2, lambda e: e["out"]["err2_lv"].__setitem__(2, e["out"]["err2_lv"][2] * 3))
mutg("graded_below_best", g2, lambda e: e["out"]["err2_lv"].__setitem__(2, e["out"]["err2_lv"][2] // 3))
mutg("graded_symeig_not_obliged", g1, lambda e: e.__setitem__("svd", "symeig_svd"))
rej = chk.validate("SVDDecompTrace", evs, env={"C09_KNOWN_BAD": "exclude"})
for r in sorted(rej, key=str): print(r[:2])
print("machinery:", chk.machinery)
ids = {r[0] for r in rej}
assert not chk.machinery and not any(g["id"] in ids for g in good) and len(ids) == len(evs) - len(good), "self-test failed"
print("OK: %d corrupted events rejected, %d genuine events accepted" % (len(ids), len(good)))
shutil.rmtree(chk.work)
