"""Self-test of the C20 binding: genuine events (one per family) plus copies with one field corrupted.
Run:  cd /verif && /venv/bin/python selftest/c20_corrupt_events.py
Every corrupted event must be rejected with the expected clause, every genuine one accepted."""
import copy, shutil, sys
sys.path.insert(0, "/repo"); sys.path.insert(0, "/verif")
from harness.common import Check
from harness.drivers import c20

chk = Check("C20X")
_, cfgs = chk.export_configs("Matching", "MatchingMC_quick.cfg", keep=lambda c: c.get("kind") in c20.EXEC)
def pick(pred):
    c = next(c for c in cfgs if pred(c))
    return c20.execute({"id": "good-" + c["kind"], "cfg": c, "seed": 7})
ex = pick(lambda c: c["kind"] == "exact" and c["R"] == 4 and c["M"] == 3 and c["b"] == 0 and c["s"] == 2 and c["p"] == [2, 4, 1, 3])
ge = pick(lambda c: c["kind"] == "generic" and c["R"] == 5 and c["M"] == 2 and c["flavour"] == "normal" and c["prof"] == 1)
me = pick(lambda c: c["kind"] == "metric" and c["op"] == "correlation" and c["shape"] == [3, 4] and c["axis"] == 1 and c["off"] == 0)
le = pick(lambda c: c["kind"] == "lev" and c["rows"] == 5 and c["flavour"] == "lowrank")
lx = pick(lambda c: c["kind"] == "levexact" and len(c["idxs"]) == 3 and c["pad"] == 2)
mg = pick(lambda c: c["kind"] == "exact" and c["R"] == 3 and c["M"] == 2 and c["b"] == 0 and c["s"] == 6 and c["p"] == [2, 3, 1])
mg["id"] = "good-magnified"
cx = pick(lambda c: c["kind"] == "exact" and c["R"] == 3 and c["M"] == 2 and c["b"] == 0 and c["s"] == 8 and c["p"] == [2, 3, 1])
cx["id"] = "good-complex"
z1 = pick(lambda c: c["kind"] == "zeros" and c["R"] == 3 and c["M"] == 2 and c["b"] == 0 and c["z"] == "onemode" and c["p"] == [2, 3, 1])
z1["id"] = "good-zero-onemode"
z2 = pick(lambda c: c["kind"] == "zeros" and c["R"] == 3 and c["M"] == 2 and c["b"] == 0 and c["z"] == "row" and c["p"] == [2, 3, 1])
z2["id"] = "good-zero-row"
good = [ex, ge, me, le, lx, mg, cx, z1, z2]
evs, want = list(good), {}
def swp(l): l[0], l[1] = l[1], l[0]
def mut(base, name, clause, f):
    e = copy.deepcopy(base); e["id"] = name; f(e); evs.append(e); want[name] = clause
mut(ex, "exact-val", "CongValue", lambda e: e["cong"][0].__setitem__("val", e["cong"][0]["val"] + 5))
mut(ex, "exact-perm", "CongOptimal", lambda e: swp(e["cong"][0]["perm"]))
mut(ex, "exact-nan", "CongFinite", lambda e: e["cong"][1].__setitem__("val", 2000000001))
mut(ex, "exact-corrmin", "CorrMin", lambda e: e["corr"].__setitem__("min_score", e["corr"]["min_score"] + 10))
mut(ex, "exact-corrstacked", "CorrZeroIffStacked", lambda e: e["corr"].__setitem__("stacked", 0))
mut(ex, "exact-weights", "PermuteWeights", lambda e: swp(e["permute"][0]["weights"]))
mut(ex, "exact-factors", "PermuteFactors", lambda e: e["permute"][1]["factors"][0][0].__setitem__(0, 99))
mut(ex, "exact-pperm", "PermuteOptimal", lambda e: swp(e["permute"][2]["perm"]))
mut(ex, "exact-domain", "InDomain", lambda e: e["cfg"]["A"][0][0].__setitem__(0, 7))
mut(ex, "exact-dropped-form", "CongForms", lambda e: e["cong"].pop())
mut(mg, "mag-raised", "CongRaised", lambda e: e["cong"][3].update(raised=True, val=2000000001, perm=[]))
mut(mg, "mag-swap-perm", "CongOptimal", lambda e: e["cong"][2].__setitem__("perm", e["cong"][0]["perm"]))
mut(mg, "mag-corr-swap", "CorrMax", lambda e: e["corr_swap"].__setitem__("max_score", e["corr_swap"]["max_score"] + 10))
mut(mg, "mag-permute-raised", "PermuteRaised", lambda e: e["permute"][0].update(raised=True, perm=[]))
mut(mg, "mag-eqf", "PermuteFactors", lambda e: e["permute"][0].__setitem__("eqf", False))
mut(mg, "mag-eqw", "PermuteWeights", lambda e: e["permute"][2].__setitem__("eqw", False))
mut(cx, "complex-corr", "CorrMax", lambda e: e["corr"].__setitem__("max_score", 250000))
mut(cx, "complex-stacked", "CorrZeroIffStacked", lambda e: e["corr_swap"].__setitem__("stacked", 90000))
mut(cx, "complex-extra-cong", "CongForms", lambda e: e["cong"].append({"abs": True, "form": "list", "swap": False, "raised": False, "val": 1000000, "perm": [0, 1, 2]}))
mut(z1, "zero-nan", "CorrZeroColumnNaN", lambda e: e["corr"][1].update(raised=False, exc="", val=2000000001))
mut(z1, "zero-silent", "CorrZeroColumnNotRejected", lambda e: e["corr"][2].update(raised=False, exc="", val=250000))
mut(z1, "zero-wrong-exc", "CorrWrongException", lambda e: e["corr"][3].update(exc="ZeroDivisionError"))
mut(z1, "zero-stacked-raised", "CorrRaised", lambda e: e["corr"][0].update(raised=True, exc="ValueError"))
mut(z1, "zero-cong-silent", "CongZeroColumnNotRejected", lambda e: e["cong"][0].update(raised=False, exc="", val=500000, perm=[0, 1, 2]))
mut(z1, "zero-permute-silent", "PermuteZeroColumnNotRejected", lambda e: e["permute"][0].update(raised=False, exc="", perm=[0, 1, 2]))
mut(z2, "zero-row-value", "CorrMax", lambda e: [r.__setitem__("val", r["val"] + 9) for r in e["corr"] if r["method"] == "max_score" and not r["swap"]])
mut(z2, "zero-row-raised", "CorrRaised", lambda e: e["corr"][5].update(raised=True, exc="ValueError"))
def optrec(e, **kw):
    return next(r for r in e["opts"]["corr"] if all(r[k] == v for k, v in kw.items()))
mut(ex, "opt-tol-not-zero", "CorrTolNotExactlyZero", lambda e: optrec(e, tol=1, dt="f32", method="max_score").update(zero=False, val=0))
mut(ex, "opt-mixed-cong", "CongValue", lambda e: e["opts"]["cong"][0].__setitem__("val", e["opts"]["cong"][0]["val"] - 40000))
mut(ex, "opt-mixed-permute", "PermuteFactors", lambda e: e["opts"]["permute"][0].__setitem__("eqf", False))
mut(ex, "opt-missing", "OptForms", lambda e: e["opts"]["corr"].pop())
mo = pick(lambda c: c["kind"] == "metric" and c["op"] == "correlation" and c["shape"] == [3, 4] and c["axis"] == 1 and c["off"] == 40)
mo["id"] = "good-metric-offset"
evs.append(mo); good.append(mo)
mut(mo, "metric-offset-val", "Value", lambda e: e["out"]["vals"].__setitem__(1, e["out"]["vals"][1] + 30))
mut(ex, "permute-alias", "PermuteAliasesInput", lambda e: e["permute"][3].__setitem__("alias", True))
mut(le, "lev-sum-double", "SumsToOneDouble", lambda e: e["out"].__setitem__("sumdev", 30000))
ti = pick(lambda c: c["kind"] == "ties" and c["R"] == 3 and c["M"] == 1 and not c["dup"] and c["sc"] == 1 and c["p"] == [2, 3, 1])
ti["id"] = "good-ties"
td = pick(lambda c: c["kind"] == "ties" and c["R"] == 3 and c["M"] == 1 and c["dup"] and c["sc"] == 0 and c["p"] == [2, 3, 1])
td["id"] = "good-ties-dup"
evs += [ti, td]; good += [ti, td]
mut(ti, "ties-identity", "CongTieNotOptimal", lambda e: e["cong"][0].__setitem__("perm", [0, 1, 2]))
mut(ti, "ties-permute", "PermuteTieNotOptimal", lambda e: e["permute"][0].__setitem__("perm", [0, 1, 2]))
mut(td, "ties-dup-wrong", "CongTieNotOptimal", lambda e: e["cong"][0].__setitem__("perm", [e["cong"][0]["perm"][1], e["cong"][0]["perm"][0], e["cong"][0]["perm"][2]][::-1]))
ml = pick(lambda c: c["kind"] == "metric" and c["op"] == "covariance" and c["shape"] == [2, 3, 2] and c["axis"] == -3 and c["lay"] == "ro")
ml["id"] = "good-metric-layout"
evs.append(ml); good.append(ml)
mut(ml, "metric-layout-raised", "Raised", lambda e: e["out"].update(raised=True))
mut(ge, "gen-val", "CongValueOfPerm", lambda e: e["cong"][0].__setitem__("val", e["cong"][0]["val"] + 60))
mut(ge, "gen-corr", "CorrStacked", lambda e: e["corr"].__setitem__("stacked", e["corr"]["stacked"] + 10))
mut(ge, "gen-corravg", "CorrAvg", lambda e: e["corr"].__setitem__("avg_score", e["corr"]["avg_score"] + 10))
mut(ge, "gen-pperm", "PermuteOptimal", lambda e: swp(e["permute"][0]["perm"]))
mut(ge, "gen-eqw", "PermuteWeights", lambda e: e["permute"][1].__setitem__("eqw", False))
mut(me, "metric-val", "Value", lambda e: e["out"]["vals"].__setitem__(1, e["out"]["vals"][1] + 30))
mut(me, "metric-sign", "Sign", lambda e: e["out"]["vals"].__setitem__(0, -e["out"]["vals"][0]))
mut(me, "metric-shape", "Shape", lambda e: e["out"].__setitem__("shape", [4]))
mut(me, "metric-nan", "Finite", lambda e: e["out"]["vals"].__setitem__(2, 2000000001))
mut(le, "lev-sum", "SumsToOne", lambda e: e["out"]["vals"].__setitem__(0, e["out"]["vals"][0] + 100))
mut(le, "lev-neg", "NonNegative", lambda e: e["out"].__setitem__("nneg", False))
def lev2(e):
    v = e["out"]["vals"]; i, j = sorted(range(len(v)), key=lambda k: -v[k])[:2]; v[i] += 50; v[j] -= 50
mut(lx, "levexact-val", "LeverageValue", lev2)
rej = {r[0]: r[1] for r in chk.validate("MatchingTrace", evs)}
for e in evs:
    print("%-22s %s" % (e["id"], rej.get(e["id"], "accepted")))
print("machinery:", chk.machinery)
bad = [(k, v, rej.get(k)) for k, v in want.items() if rej.get(k) != v] + [g["id"] for g in good if g["id"] in rej]
assert not chk.machinery and not bad, "self-test failed: %s" % bad
print("OK: %d corrupted events rejected with the expected clause, %d genuine events accepted" % (len(want), len(good)))
shutil.rmtree(chk.work, ignore_errors=True)
