"""C11 self-test: corrupted events must be rejected by ConstraintsTrace.tla, the originals accepted.

Run:  cd /verif && /venv/bin/python -m selftest.c11_corrupt      (prints one line per event)
"""
import copy
import sys

sys.path.insert(0, "/repo")
from harness.common import Check          # noqa: E402
from harness.drivers import c11           # noqa: E402


def main():
    chk = Check("C11", "quick", 0, "/repo")
    dict_nn = [{"kind": "non_negative", "form": "dict", "falsy": "None", "modes": [0, 2], "pars": [1, 1]}]
    two = [{"kind": "non_negative", "form": "dict", "falsy": "None", "modes": [0], "pars": [1]},
           {"kind": "simplex", "form": "dict", "falsy": "None", "modes": [0, 1], "pars": [1, 2]}]
    m_ok = c11.exec_map({"id": "map-ok", "op": "map", "n": 3, "items": dict_nn, "seed": 0, "form": "positional"})
    m_rej = c11.exec_map({"id": "map-reject-ok", "op": "map", "n": 3, "items": two, "seed": 0})
    r_ok = c11.exec_run({"id": "run-ok", "op": "run", "n": 3, "items": dict_nn, "seed": 5,
                         "run": {"shape": [3, 4, 2], "rank": 2, "init": "random", "outer": 2, "inner": 10, "data": "signed",
                                 "fixed": [0], "via": "class", "scale": 0, "dtype": "float32", "tol": "default", "built": "at_call", "form": "positional", "cvg": "rec_error", "errors": True, "alias": False}})
    p_ok = c11.exec_prox({"id": "prox-ok", "op": "prox", "n": 3, "items": dict_nn, "seed": 7,
                          "run": {"rows": 3, "cols": 2, "mode": 2, "data": "signed", "scale": -70, "dtype": "float64", "form": "positional"}})
    evs = [m_ok, m_rej, r_ok, p_ok]

    def mutate(ev, name, fn):
        e = copy.deepcopy(ev)
        e["id"] = name
        fn(e)
        evs.append(e)
    mutate(m_ok, "map-kind-corrupted", lambda e: e["vc"][2].update(kind="simplex"))
    mutate(m_ok, "map-par-corrupted", lambda e: e["vc"][0].update(par=-1))
    mutate(m_ok, "map-decomp-raised", lambda e: e["cp"].update(raised=True, exc="TypeError"))
    mutate(m_rej, "map-reject-missed", lambda e: e["vc"][1].update(raised=False, kind="simplex", par=2))
    mutate(m_rej, "map-reject-decomp-returned", lambda e: e["cp"].update(raised=False, exc=""))
    mutate(r_ok, "run-negative-entry", lambda e: e["factors"][2]["cols"][1].update(minsign=-1))
    mutate(r_ok, "run-unrequested-mode-negative-is-fine", lambda e: e["factors"][1]["cols"][0].update(minsign=-1))
    mutate(r_ok, "run-fixed-mode-of-builtin-start-negative", lambda e: e["factors"][0]["cols"][0].update(minsign=-1))
    u_ok = c11.exec_run({"id": "run-user-ok", "op": "run", "n": 3, "items": dict_nn, "seed": 5,
                         "run": {"shape": [3, 4, 2], "rank": 2, "init": "feasible", "outer": 2, "inner": 10, "data": "signed",
                                 "fixed": [0], "via": "function", "scale": 0, "dtype": "float64", "tol": "default", "built": "at_call", "form": "positional", "cvg": "rec_error", "errors": True, "alias": False}})
    evs.append(u_ok)
    mutate(u_ok, "run-fixed-mode-supplied-feasible-returned-negative", lambda e: e["factors"][0]["cols"][0].update(minsign=-1))
    mutate(u_ok, "run-fixed-mode-supplied-infeasible-is-fine",
           lambda e: (e["start"][0]["cols"][0].update(minsign=-1), e["factors"][0]["cols"][0].update(minsign=-1)))
    mutate(r_ok, "run-float32-huge-scale-out-of-domain", lambda e: e["run"].update(scale=40))
    mutate(r_ok, "run-last-mode-fixed-out-of-domain", lambda e: e["run"].update(fixed=[2]))
    mutate(r_ok, "run-nan-factor", lambda e: e["factors"][2].update(finite=False))
    mutate(r_ok, "run-out-of-domain-inner-0", lambda e: e["run"].update(inner=0))
    mutate(r_ok, "run-column-dropped", lambda e: e["factors"][0]["cols"].pop())
    mutate(p_ok, "prox-negative-entry", lambda e: e["factor"]["cols"][0].update(minsign=-1))
    rej = {rid: clause for rid, clause, _ in chk.validate("ConstraintsTrace", evs)}
    expect_ok = {"map-ok", "map-reject-ok", "run-ok", "run-unrequested-mode-negative-is-fine",
                 "run-fixed-mode-supplied-infeasible-is-fine", "prox-ok", "run-user-ok"}
    bad = 0
    for e in evs:
        got = rej.get(e["id"], "ok")
        good = (got == "ok") == (e["id"] in expect_ok)
        bad += not good
        print("%-40s %-20s %s" % (e["id"], got, "as expected" if good else "UNEXPECTED"))
    import shutil
    shutil.rmtree(chk.work, ignore_errors=True)
    print("machinery:", chk.machinery[:2])
    sys.exit(1 if bad or chk.machinery else 0)


if __name__ == "__main__":
    main()
