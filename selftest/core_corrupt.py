"""Corrupted-event self-test for C01, C17 and the Driver checks: a recorded trace with one field changed (or one
event removed) must be rejected with the expected clause, the genuine trace accepted.
Run:  cd /verif && /venv/bin/python -m selftest.core_corrupt
"""
import copy
import json
import os
import sys

sys.path.insert(0, "/repo")
from harness.common import Check
from harness.drivers import c01, c17
from harness import lib_driver as L

FAIL = []


def expect(name, chk, module, events, want, **kw):
    rej = chk.validate(module, events, **kw)
    got = sorted({c for _, c, _ in rej})
    ok = (got == sorted(want)) if want not in (None, "any") else (want is None or len(got) > 0)
    print("%-46s %s  rejected clauses=%s" % (name, "ok" if ok else "UNEXPECTED", got))
    if not ok or chk.machinery:
        FAIL.append((name, got, chk.machinery[:1]))
        chk.machinery.clear()


def main():
    chk = Check("SELFTEST", "quick", 0, "/repo")
    # ---- C01
    case = {"id": "C01/x", "cfg": {"op": "unfold", "shape": [2, 3, 2], "mode": 1}, "dtypes": ["float64", "int32"], "layouts": True, "bool": True}
    ev = c01.execute(case)
    expect("C01 genuine", chk, "TensorIndexTrace", [ev], [])
    e2 = copy.deepcopy(ev); d = e2["runs"]["float64"]["data"]; d[0], d[1] = d[1], d[0]
    expect("C01 two entries swapped", chk, "TensorIndexTrace", [e2], ["Layout"])
    e2 = copy.deepcopy(ev); e2["runs"]["int32"]["dtype"] = "int64"
    expect("C01 result re-typed", chk, "TensorIndexTrace", [e2], ["Dtype"])
    e2 = copy.deepcopy(ev); e2["runs"]["float64"]["back"][3] = 99
    expect("C01 refold differs", chk, "TensorIndexTrace", [e2], ["RoundTrip"])
    e2 = copy.deepcopy(ev); e2["cfg"]["mode"] = 5
    expect("C01 config outside the domain", chk, "TensorIndexTrace", [e2], ["InDomain"])
    # ---- C17
    ops = [{"ev": "Set", "t": "t1", "m": "be", "name": "jax", "loc": True},
           {"ev": "Enter", "t": "t0", "m": "ta", "name": "einsum", "loc": False},
           {"ev": "Set", "t": "t2", "m": "be", "name": "nope", "loc": False},
           {"ev": "Exit", "t": "t0", "m": "ta", "how": "exception"},
           {"ev": "Query", "t": "t2", "m": "be"}]
    evs = c17.run_rigs(chk, [{"kind": "programs", "prefix": "s", "threads": 3, "traces": [ops]}])
    kw = dict(stateful=True, group_key="tr")
    expect("C17 genuine", chk, "BackendStackTrace", evs, [], **kw)
    e2 = copy.deepcopy(evs); e2[1]["obs"]["t2"]["be"]["state"]["get"] = "jax"
    expect("C17 other thread observes a local selection", chk, "BackendStackTrace", e2, ["ObsMismatch"], **kw)
    e2 = copy.deepcopy(evs); e2[3]["out"] = "ok"; e2[3]["name"] = "nope"
    expect("C17 rejected name reported as accepted", chk, "BackendStackTrace", e2, ["AcceptedUnselectableName"], **kw)
    e2 = copy.deepcopy(evs); del e2[2]      # hook removed: the Enter is missing, the Exit has no context
    expect("C17 Enter event removed", chk, "BackendStackTrace", e2, "any", **kw)
    e2 = copy.deepcopy(evs); e2[4]["obs"]["t0"]["ta"]["attr"]["fdisp"] = "einsum"
    expect("C17 dispatch not restored after exit", chk, "BackendStackTrace", e2, ["ExitObsMismatch"], **kw)
    # ---- Driver
    cfg = {"alg": "parafac", "seed": 5, "shape": [4, 5, 3], "rank": 2, "data": "generic", "init": "svd", "normalize": True,
           "tol": "zero", "callback": True, "id": "sd"}
    tr = L.record_trace(cfg)
    for prop in ("C06", "C07", "C08", "C10", "C14"):
        expect("Driver genuine " + prop, chk, "DriverTrace", tr, [], cfg="DriverTrace_%s.cfg" % prop, **kw)
    k3 = next(i for i, e in enumerate(tr) if e.get("k") == 3)
    t2 = copy.deepcopy(tr); t2[k3]["errs"][-1] += 5000
    expect("C06 last error is that of another iterate", chk, "DriverTrace", t2, ["LastErrorIsNotErrorOfReturned", "NotPrefixOfLongerRun"], cfg="DriverTrace_C06.cfg", **kw)
    t2 = copy.deepcopy(tr); t2[k3]["errs"] = t2[k3]["errs"][:-1]; t2[k3]["n_errs"] -= 1
    expect("C06 entry missing (length not explained)", chk, "DriverTrace", t2, ["ErrsLen"], cfg="DriverTrace_C06.cfg", **kw)
    cb = next(i for i, e in enumerate(tr) if e.get("ev") == "Callback" and e["j"] == 2)
    t2 = copy.deepcopy(tr); t2[cb]["err"] += 900
    expect("C06 stale callback error", chk, "DriverTrace", t2, ["CallbackErrorIsNotErrorOfIterate"], cfg="DriverTrace_C06.cfg", **kw)
    t2 = copy.deepcopy(tr); t2[k3]["true"] = tr[k3 - 1]["true"] + 1000; t2[k3]["errs"][-1] = t2[k3]["true"]
    expect("C07 sweep increases the objective", chk, "DriverTrace", t2, ["ObjectiveIncreasedBySweep"], cfg="DriverTrace_C07.cfg", **kw)
    t2 = copy.deepcopy(tr); t2[k3]["st"]["colnorm_dev"] = 500000
    expect("C08 columns not unit norm", chk, "DriverTrace", t2, ["ColumnsNotUnitNorm"], cfg="DriverTrace_C08.cfg", **kw)
    t2 = copy.deepcopy(tr); t2[k3]["st"]["shapes"][1] = [5, 3]
    expect("C08 factor shape", chk, "DriverTrace", t2, ["FactorShapes"], cfg="DriverTrace_C08.cfg", **kw)
    nn = {"alg": "nn_parafac", "seed": 5, "shape": [4, 5, 3], "rank": 2, "data": "signed", "init": "svd", "tol": "tiny", "id": "sn", "caps": [0, 1, 2]}
    trn = L.record_trace(nn)
    expect("C10 genuine", chk, "DriverTrace", trn, [], cfg="DriverTrace_C10.cfg", **kw)
    t2 = copy.deepcopy(trn); t2[2]["st"]["mins"][2] = -5
    expect("C10 negative entry", chk, "DriverTrace", t2, ["NegativeEntry"], cfg="DriverTrace_C10.cfg", **kw)
    wc = {"alg": "parafac", "seed": 7, "shape": [4, 5, 3], "rank": 2, "data": "generic", "init": "user", "init_weights": "mixed",
          "tol": "zero", "twin": True, "fixed": [0], "id": "sw", "caps": [0, 1, 2]}
    trw = L.record_trace(wc)
    expect("C14 genuine", chk, "DriverTrace", trw, [], cfg="DriverTrace_C14.cfg", **kw)
    t2 = copy.deepcopy(trw); t2[1]["warm"]["init_dev"] = 30000000
    expect("C14 zero budget returns another tensor", chk, "DriverTrace", t2, ["ZeroBudgetDoesNotReturnInit"], cfg="DriverTrace_C14.cfg", **kw)
    t2 = copy.deepcopy(trw); t2[2]["warm"]["bit_identical"][0] = False
    expect("C14 fixed mode changed", chk, "DriverTrace", t2, ["FixedModeChanged"], cfg="DriverTrace_C14.cfg", **kw)
    t2 = copy.deepcopy(trw); t2[3]["warm"]["twin_dev"] = 5000
    expect("C14 absorbed weights diverge", chk, "DriverTrace", t2, ["AbsorbedWeightsDiverge"], cfg="DriverTrace_C14.cfg", **kw)
    import shutil
    shutil.rmtree(chk.work, ignore_errors=True)
    print("FAILED: %s" % FAIL if FAIL else "all corrupted events rejected as expected")
    sys.exit(1 if FAIL else 0)


if __name__ == "__main__":
    main()
