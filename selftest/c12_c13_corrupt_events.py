import sys, os, copy, json
sys.path.insert(0,'/verif'); sys.path.insert(0,'/repo')
from harness.common import Check
from harness.drivers import c12, c13
chk=Check("C12","quick",0,"/repo")
case={"id":"t/ok","kind":"vec","op":"simplex","p":2,"q":2,"k":0,"dec":False,"sc":0,"cols":[[2,-1,1]],"ndim":1}
ev=c12.execute(case)
bad=copy.deepcopy(ev); bad["id"]="t/corrupt-value"; bad["runs"]["direct"]["out"][0][0]+=3
bad2=copy.deepcopy(ev); bad2["id"]="t/corrupt-domain"; bad2["cols"][0][0]=7
bad3=copy.deepcopy(ev); bad3["id"]="t/corrupt-nan"; bad3["runs"]["dispatch"]["out"][0][1]=2000000001
bad4=copy.deepcopy(ev); bad4["id"]="t/corrupt-again"; bad4["runs"]["dispatch"]["again"][0][1]+=5
mcase={"id":"t/mat-ok","kind":"mat","op":"svt","p":1,"q":2,"m":2,"n":2,"uf":[[1,1],[1,-1]],"vf":[[1,1],[1,-1]],"c":[2,-1]}
mev=c12.execute(mcase)
mbad=copy.deepcopy(mev); mbad["id"]="t/mat-corrupt"; mbad["runs"]["direct"]["out"][1][0]+=2
mbad2=copy.deepcopy(mev); mbad2["id"]="t/mat-corruptM"; mbad2["M"][0][0]+=1
print(chk.validate("ProxTrace",[ev,bad,bad2,bad3,bad4,mev,mbad,mbad2],chunks=1), chk.machinery)
chk2=Check("C13","quick",0,"/repo")
c={"id":"u/ok","kind":"exact","solver":"active_set","variant":"cold","mode":"cap","G":[[2,1],[1,3]],"B":[[1,2],[-3,1]],"p1":0,"p2":0,"q":1}
e=c13.execute(c)
b1=copy.deepcopy(e); b1["id"]="u/corrupt-value"; b1["x"][0][1]+=30
b2=copy.deepcopy(e); b2["id"]="u/corrupt-neg"; b2["nneg"]=1
b3=copy.deepcopy(e); b3["id"]="u/corrupt-G"; b3["G"]=[[1,2],[2,1]]
print(e["x"]); print(chk2.validate("NNLSTrace",[e,b1,b2,b3],chunks=1), chk2.machinery)
import shutil; shutil.rmtree(chk.work,ignore_errors=True); shutil.rmtree(chk2.work,ignore_errors=True)
