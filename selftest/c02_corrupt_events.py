"""Self-test of the C02 binding: genuine events plus copies with a single field corrupted.
Run:  cd /verif && /venv/bin/python selftest/c02_corrupt_events.py
(prints the REJECT tuples; every corrupted copy must be rejected with the stated clause, the genuine events accepted)"""
import copy, shutil, sys, warnings
sys.path.insert(0, "/repo"); sys.path.insert(0, "/verif")
warnings.filterwarnings("ignore")
from harness.common import Check
from harness.drivers import c02

chk = Check("C02X")
def case(name, cfg, backend="einsum", cplx=True):
    return {"id": name, "k": 0, "cfg": cfg, "backend": backend, "draw": 1, "cplx": cplx, "seed": 1, "derived": {}}
F = {"ity": "int", "dt": "same", "ct": "list", "rep": 1, "me": 0, "e2": 0, "mf": "list", "cf": "mixed", "ep": "dispatch", "alias": False, "pre": "none", "nz": False, "rsr": True}          # argument forms
md = dict({"op": "mode_dot", "shape": [2, 3, 2], "mode": 1, "vec": False, "J": 2, "tr": True, "bad": False}, ity="i64", dt="int_f", ct="list", sc=[0, 1, 0, 0], rep=2, me=0, e2=0, mf="list", cf="pos", ep="direct", alias=True, pre="failed", nz=True, rsr=True)
kr = dict({"op": "khatri_rao", "rows": [2, 3], "R": 2, "skip": 0, "w": True, "mask": True, "bad": False}, ity="i32", dt="f32_f64", ct="tuple", sc=[0, 2, 0, 0], rep=1, me=0, e2=0, mf="list", cf="kw", ep="dispatch", alias=False, pre="failed", nz=True, rsr=True)
td = {"op": "tensordot", "s1": [2, 3], "s2": [2, 3, 3], "m1": [], "m2": [], "b1": [-1, -2], "b2": [-1, -3], "mint": False, "bint": False, "neg": "b", "sc": [0, 0, 0, 0], **dict(F, mf="gen")}
sk = {"op": "sampled_kr", "rows": [2, 3, 2], "R": 2, "skip": 1, "ns": 3, "given": False, "idt": "rng", "sc": [0, 0, 0, 0, 0], **F}
bad = {"op": "mode_dot", "shape": [2, 3], "mode": 0, "vec": True, "J": 0, "tr": False, "bad": True, "sc": [0, 0, 0, 0], **F}
good = {n: c02.execute(case(n, c, be)) for n, c, be in [("good_mode_dot", md, "core"), ("good_khatri_rao", kr, "einsum"),
                                                        ("good_tensordot", td, "core"), ("good_sampled_kr", sk, "core"),
                                                        ("good_raises", bad, "einsum")]}
evs = list(good.values())
expect = {}
def mut(name, base, clause, f):
    e = copy.deepcopy(good[base]); e["id"] = name; f(e); evs.append(e); expect[name] = clause
mut("value_re", "good_mode_dot", "Value", lambda e: e["outs"][0]["re"].__setitem__(5, e["outs"][0]["re"][5] + 1))
mut("value_conj", "good_mode_dot", "Value", lambda e: e["outs"][0].__setitem__("im", [-v for v in e["outs"][0]["im"]]))
mut("shape_swapped", "good_mode_dot", "Shape", lambda e: e["outs"][0].__setitem__("shape", [2, 2, 2][::-1] + [1]))
mut("data_short", "good_mode_dot", "Shape", lambda e: (e["outs"][0]["re"].pop(), e["outs"][0]["im"].pop()))
mut("inexact", "good_mode_dot", "Exact", lambda e: e["outs"][0].__setitem__("exact", False))
mut("raised_unexpectedly", "good_mode_dot", "Outcome", lambda e: e["outs"][0].update(kind="raised"))
mut("input_changed", "good_mode_dot", "Value", lambda e: e["in"]["ts"][1]["im"].__setitem__(0, -e["in"]["ts"][1]["im"][0] or 1))
mut("input_out_of_range", "good_mode_dot", "Inputs", lambda e: e["in"]["ts"][0]["re"].__setitem__(0, 9))
mut("operand_shape", "good_mode_dot", "Inputs", lambda e: e["in"]["ts"][1].__setitem__("shape", [2, 3]))
mut("cfg_mode_out_of_range", "good_mode_dot", "InDomain", lambda e: e["cfg"].__setitem__("mode", 3))
mut("cfg_missing_field", "good_mode_dot", "InDomain", lambda e: e["cfg"].pop("tr"))
mut("cfg_other_mode", "good_mode_dot", "Inputs", lambda e: e["cfg"].__setitem__("mode", 0))
mut("kr_unweighted", "good_khatri_rao", "Value", lambda e: e["outs"][0].update(re=e["in"]["ts"][1]["re"], im=e["in"]["ts"][1]["im"]))
mut("kr_weights_missing", "good_khatri_rao", "Inputs", lambda e: e["in"].__setitem__("w", c02.ABSENT))
mut("cfg_scale_codes", "good_mode_dot", "InDomain", lambda e: e["cfg"].__setitem__("sc", [0, 0, 0, 0]))
mut("cfg_int_form", "good_mode_dot", "InDomain", lambda e: e["cfg"].__setitem__("ity", "long"))
mut("value_truncated", "good_mode_dot", "Exact", lambda e: e["outs"][0].update(exact=False, re=[v // 2 * 2 for v in e["outs"][0]["re"]]))
mut("second_call_differs", "good_mode_dot", "Repeat", lambda e: e["outs"][1]["re"].__setitem__(0, e["outs"][1]["re"][0] + 1))
mut("second_call_raised", "good_mode_dot", "Repeat", lambda e: e["outs"][1].update(kind="raised"))
mut("call_missing", "good_mode_dot", "Calls", lambda e: e["outs"].pop())
mut("cfg_magnitude", "good_tensordot", "InDomain", lambda e: e["cfg"].__setitem__("e2", 7))
mut("cfg_mode_form", "good_tensordot", "InDomain", lambda e: e["cfg"].__setitem__("mf", "deque"))
mut("cfg_call_form", "good_tensordot", "InDomain", lambda e: e["cfg"].__setitem__("cf", "star"))
mut("td_neg_flag", "good_tensordot", "InDomain", lambda e: e["cfg"].__setitem__("neg", "none"))
mut("td_transposed", "good_tensordot", "Value", lambda e: e["outs"][0].__setitem__("re", e["outs"][0]["re"][::-1]))
mut("sk_row", "good_sampled_kr", "Rows", lambda e: e["outs"][0]["rows"].__setitem__(0, (e["outs"][0]["rows"][0] + 1) % 4))
mut("sk_index_range", "good_sampled_kr", "Indices", lambda e: e["outs"][0]["idx"][1].__setitem__(0, 2))
mut("sk_value", "good_sampled_kr", "Value", lambda e: e["outs"][0]["re"].__setitem__(0, e["outs"][0]["re"][0] + 1))
mut("no_raise", "good_raises", "Outcome", lambda e: e["outs"][0].update(kind="value"))
rej = chk.validate("MultilinearTrace", evs)
got = {r[0]: r[1] for r in rej}
for k in sorted(got): print(k, got[k], "(expected %s)" % expect.get(k, "ACCEPT"))
print("machinery:", chk.machinery)
assert not chk.machinery and not (set(got) & set(good)) and got == expect, "self-test failed: %s" % {k: (got.get(k), v) for k, v in expect.items() if got.get(k) != v}
print("OK: %d corrupted events rejected with the expected clause, %d genuine events accepted" % (len(got), len(good)))
shutil.rmtree(chk.work, ignore_errors=True)
