"""Self-test of the C19 binding: genuine events plus copies with one field corrupted.
Run:  cd /verif && /venv/bin/python selftest/c19_corrupt_events.py
Every corrupted event must be rejected with the expected clause, every genuine one accepted."""
import copy, shutil, sys
sys.path.insert(0, "/repo"); sys.path.insert(0, "/verif")
from harness.common import Check
from harness.drivers import c19

chk = Check("C19X")
_, cfgs = chk.export_configs("Regress", "RegressMC_quick.cfg", keep=lambda c: c.get("kind") in c19.EXEC)
def pick(name, pred):
    c = next(c for c in cfgs if pred(c))
    return c19.execute({"id": "good-" + name, "cfg": c, "seed": 7})
cp = pick("cp", lambda c: c["kind"] == "reg" and c["model"] == "cp" and c["xs"] == [3, 2] and c["ys"] == [2] and c["rank"] == 1 and c["opt"] == "tight" and c["reg"] == 100 and c["ux"] == 0 and c["ff"] == "f64")
tk = pick("tucker", lambda c: c["kind"] == "reg" and c["model"] == "tucker" and c["xs"] == [2, 2, 2] and c["rank"] == 1 and c["opt"] == "loose" and c["reg"] == 100 and c["ux"] == 0 and c["ff"] == "f64")
pl = pick("pls", lambda c: c["kind"] == "pls" and c["xs"] == [3, 2] and c["ny"] == 2 and c["nc"] == 2 and c["opt"] == "tol2" and c["lay"] == "C" and c["dat"] == "generic")
pu = pick("pls-units", lambda c: c["kind"] == "pls" and c["xs"] == [2, 2, 2, 2] and c["ux"] == 80 and c["nc"] == 3 and c["ny"] == 2)
cu = pick("cp-units", lambda c: c["kind"] == "reg" and c["model"] == "cp" and c["xs"] == [3, 2] and c["ys"] == [2] and c["ux"] == -20 and c["rank"] == 1)
cf = pick("cp-x32", lambda c: c["kind"] == "reg" and c["model"] == "cp" and c["xs"] == [3, 2] and c["ys"] == [2] and c["ff"] == "x32" and c["rank"] == 1)
pf = pick("pls-fortran", lambda c: c["kind"] == "pls" and c["xs"] == [3, 2, 2] and c["lay"] == "F" and c["ny"] == 2)
pc = pick("pls-contrast", lambda c: c["kind"] == "pls" and c["xs"] == [3, 2, 2] and c["dat"] == "contrast" and c["ny"] == 2 and c["nc"] == 2)
good = [cp, tk, pl, pu, cu, cf, pf, pc]
evs, want = list(good), {}
def mut(base, name, clause, f):
    e = copy.deepcopy(base); e["id"] = name; f(e); evs.append(e); want[name] = clause
def bump(path, k, d):
    def f(e):
        t = e
        for p in path: t = t[p]
        t["data"][k] += d
    return f
def swap(path, a, b):
    def f(e):
        t = e
        for p in path: t = t[p]
        t["data"][a], t["data"][b] = t["data"][b], t["data"][a]
    return f
mut(cp, "cp-pred-onehot", "Predict", bump(["pred"], 8, 4))            # a one-hot sample reads out one weight: tolerance 3 units
mut(cp, "cp-pred-random", "Predict", bump(["pred"], 0, 40))
mut(cp, "cp-pred-layout", "Predict", swap(["pred"], 8, 10))           # as if the weights were flattened in another order
mut(cp, "cp-weight", "Predict", bump(["weight"], 3, 9))
mut(cp, "cp-dense", "WeightIsDense", bump(["dense"], 3, 3))
mut(cp, "cp-vec", "VecW", swap(["vec"], 0, 1))
def flipmax(path):
    def f(e):
        t = e
        for p in path: t = t[p]
        k = max(range(len(t["data"])), key=lambda n: abs(t["data"][n]))
        t["data"][k] = -t["data"][k]
    return f
mut(cp, "cp-factor", "DenseDefinition", flipmax(["factors", "fs", 0]))
mut(cp, "cp-nan", "Finite", lambda e: e["pred"]["data"].__setitem__(0, 2000000001))
mut(cp, "cp-form-int64", "PredictDataForm", lambda e: e["forms"][1]["pred"]["data"].__setitem__(0, e["forms"][1]["pred"]["data"][0] + 40))
mut(cp, "cp-form-raised", "PredictRaised", lambda e: e["forms"][3].__setitem__("raised", True))
mut(cp, "cp-form-missing", "DataForms", lambda e: e["forms"].pop())
mut(cp, "cp-iterations", "IterationBudget", lambda e: e["fit"].__setitem__("n_iter", 41))
mut(cp, "cp-refit-pred", "RefitPredict", bump(["refit", "pred"], 0, 40))
mut(cp, "cp-refit-vec", "RefitVecW", swap(["refit", "vec"], 0, 1))
mut(tk, "tucker-core", "DenseDefinition", flipmax(["factors", "core"]))
mut(tk, "tucker-pred", "Predict", bump(["pred"], 5, 5))
mut(pl, "pls-transform", "TransformIsScores", bump(["base", "transform"], 1, 5))
mut(pl, "pls-unit", "UnitLoadings", lambda e: e["shiftx"]["loads"][0].__setitem__("data", [2 * x for x in e["shiftx"]["loads"][0]["data"]]))
mut(pl, "pls-shiftx", "ShiftXPredict", bump(["shiftx", "pred"], 0, 5))
mut(pl, "pls-shifty", "ShiftYPredict", bump(["shifty", "pred"], 0, 1000000))
mut(pl, "pls-yload", "ShiftYLoadings", lambda e: e["shifty"]["yload"]["data"].__setitem__(0, -e["shifty"]["yload"]["data"][0]))
mut(pl, "pls-yscores", "TransformYIsYScores", bump(["extra", "yt"], 0, 4000))
mut(pl, "pls-fit-transform", "FitTransform", bump(["extra", "fty"], 0, 5))
mut(pl, "pls-form-transform", "TransformDataForm", lambda e: e["extra"]["forms"][0]["transform"]["data"].__setitem__(0, e["extra"]["forms"][0]["transform"]["data"][0] + 5))
mut(pl, "pls-form-predict", "PredictDataForm", lambda e: e["extra"]["forms"][1]["pred"]["data"].__setitem__(0, e["extra"]["forms"][1]["pred"]["data"][0] + 5))
mut(pl, "pls-bad-fit-accepted", "BadFitNotRejected", lambda e: e["extra"]["reject"].update(raised=False, exc=""))
mut(pl, "pls-reject-changed", "RejectedFitChangedModel", bump(["extra", "reject", "pred"], 0, 7))
mut(pl, "pls-refit", "RefitIndependent", bump(["extra", "refit", "scores"], 0, 7))
mut(pu, "units-unit-loadings", "UnitLoadings", lambda e: e["shiftx"]["loads"][3].__setitem__("data", [int(0.99 * x) for x in e["shiftx"]["loads"][3]["data"]]))
mut(pu, "units-hung", "FitHung", lambda e: e["base"].update(raised=True, exc="Timeout"))
mut(cu, "units-predict", "Predict", bump(["pred"], 0, 40))
mut(cf, "fitform-precision", "WeightIsDensePrecision", lambda e: e["prec"].__setitem__("wd", 270000000))
mut(cf, "fitform-vec-precision", "VecWPrecision", lambda e: e["prec"].__setitem__("vd", 65))
mut(pl, "pls-fit-twice", "FitTwiceSame", bump(["extra", "again", "scores"], 0, 7))
mut(pf, "layout-transform", "TransformIsScores", bump(["base", "transform"], 1, 120000))
mut(pc, "contrast-zero-loading", "UnitLoadings", lambda e: e["shiftx"]["loads"][1].__setitem__("data", [0] * len(e["shiftx"]["loads"][1]["data"])))
def permswap(e): e["perm"][0], e["perm"][1] = e["perm"][1], e["perm"][0]
mut(pl, "pls-perm", "PermScores", permswap)
mut(pl, "pls-nan", "Finite", lambda e: e["base"]["scores"]["data"].__setitem__(0, 2000000001))
rej = {r[0]: r[1] for r in chk.validate("RegressTrace", evs)}
for e in evs:
    print("%-18s %s" % (e["id"], rej.get(e["id"], "accepted")))
print("machinery:", chk.machinery)
bad = [(k, v, rej.get(k)) for k, v in want.items() if rej.get(k) != v] + [g["id"] for g in good if g["id"] in rej]
assert not chk.machinery and not bad, "self-test failed: %s" % bad
print("OK: %d corrupted events rejected with the expected clause, %d genuine events accepted" % (len(want), len(good)))
shutil.rmtree(chk.work, ignore_errors=True)
