"""Self-test of the C15 / C18 trace specifications: corrupted events must be rejected (and only those).

Run:  cd /verif && /venv/bin/python -m selftest.c15_c18_corrupt
Records real events with the drivers' execute(), corrupts single fields, validates with TLC and
compares the REJECT lines with what is expected.  Exit code 0 iff every expectation holds.
"""
import copy
import json
import os
import sys

sys.path.insert(0, "/repo")
from harness import lib_entrypoints as L          # noqa: E402
from harness import tlc                           # noqa: E402
from harness.drivers import c15, c18              # noqa: E402

WORK = os.path.join(tlc.WORK, "selftest-c15c18")


def run_tlc(module, events):
    os.makedirs(WORK, exist_ok=True)
    path = os.path.join(WORK, module + ".ndjson")
    with open(path, "w") as fh:
        for e in events:
            fh.write(json.dumps(e) + "\n")
    r = tlc.run(module, module + ".cfg", env={"TRACE_FILE": path})
    os.remove(path)
    assert r.rc == 0 and not r.postcondition_false, r.out[-2000:]
    return sorted((p[1], p[2]) for p in r.printed if p and p[0] == "REJECT")


def case(entry, kind, dtype):
    return {"id": "%s/%s/%s" % (entry, kind, dtype), "entry": entry, "kind": kind, "dtype": dtype, "seed": 0}


def c15_traces():
    base = c15.flatten([c15.execute(case("base.unfold", "tview", "float64"))])            # ids e1..e4
    hals = c15.flatten([c15.execute(case("solvers.hals_nnls", "V_fresh", "float64"))])
    out, expect = [], []

    def add(tag, evs, exp):
        for e in evs:
            e["tr"] = tag
            e["id"] = tag + e["id"]
        out.extend(evs)
        expect.extend(exp)
    add("a", copy.deepcopy(base), [])                                        # untouched: accepted
    t = copy.deepcopy(base)
    t[1]["slots"][0]["h"] += 100                                            # the passed array has other bytes
    add("b", t, [("be2", "ObjectMutated")])
    t = copy.deepcopy(base)
    t[1]["slots"][0]["d"] += 100                                            # the graph reaches something else
    add("c", t, [("ce2", "ElementRebound"), ("ce3", "PreDiffersFromLastPost")])
    t = copy.deepcopy(base)
    t[3]["ev"] = "Raise"
    t[3]["slots"][-1]["h"] += 100                                           # debris left on the exception path (base of the view)
    add("d", t, [("de4", "ObjectMutated")])
    t = copy.deepcopy(base)
    t[0]["decl"] = [["args", "0"]]                                          # registry claims an exemption the spec does not have
    add("e", t, [("ee1", "ExemptDeclMismatch")])
    t = copy.deepcopy(hals)
    vi = [j for j, s in enumerate(t[1]["slots"]) if s["p"] == ["kwargs", "V"]][0]
    assert t[1]["slots"][vi]["h"] != t[0]["slots"][vi]["d"], "hals_nnls did not update V?"
    add("f", t, [])                                                         # exempt slot changed: accepted
    t = copy.deepcopy(hals)
    ui = [j for j, s in enumerate(t[1]["slots"]) if s["p"] == ["args", "0"]][0]
    t[1]["slots"][ui]["h"] += 100                                           # but UtM is not exempt
    add("g", t, [("ge2", "ObjectMutated")])
    t = copy.deepcopy(base)
    t[0]["forms"] = ["modes:weird"]                                          # a form the spec does not declare
    add("i", t, [("ie1", "UnknownArgForm")])
    t = copy.deepcopy(base)                                                  # a published call form refused with TypeError
    t[0]["forms"] = t[1]["forms"] = ["call:keyword"]
    t[1]["ev"], t[1]["exc"] = "Raise", "TypeError"
    add("j", t, [("je2", "PublishedCallFormRefused")])
    t = copy.deepcopy(base)                                                  # ... but any other exception is just an exit
    t[0]["forms"] = t[1]["forms"] = ["call:positional"]
    t[1]["ev"], t[1]["exc"] = "Raise", "ValueError"
    add("k", t, [])
    t = copy.deepcopy(base)
    del t[1]["slots"][0]                                                    # a slot withheld from the exit event
    add("h", t, [("he2", "Malformed"), ("he3", "Malformed")])
    return out, sorted(expect)


def c18_events():
    evs, expect = [], []

    def add(e, tag, exp):
        e = copy.deepcopy(e)
        e["id"] = tag
        evs.append(e)
        expect.extend(exp)
    pf = c18.execute(case("decomposition.parafac", "fresh", "float32"))
    pc = c18.execute(case("decomposition.parafac", "fresh", "complex128"))
    sv = c18.execute(case("tenalg.svd_interface", "truncated_svd_fresh", "complex128"))
    lv = c18.execute(case("metrics.leverage_score_dist", "fresh", "float32"))
    add(pf, "a", [])
    e = copy.deepcopy(pf)
    fi = [j for j, o in enumerate(e["outs"]) if o["p"] == ["factors", "1"]][0]
    e["outs"][fi]["dt"] = "float64"
    add(e, "b", [("b", "WidenedToDouble")])
    e = copy.deepcopy(pf)
    e["dtype"] = "float64"
    add(e, "c", [("c", "NarrowedToSingle")] * sum(o["k"] == "array" for o in pf["outs"]))
    e = copy.deepcopy(pc)
    e["outs"][fi]["dt"] = "float64"
    add(e, "d", [("d", "DroppedImaginary")])
    e = copy.deepcopy(pf)
    e["outs"][fi]["dt"] = "complex64"
    add(e, "e", [("e", "PromotedToComplex")])
    e = copy.deepcopy(pf)
    e["outs"][fi]["dt"] = "int"
    add(e, "f", [("f", "NotFloating")])
    e = copy.deepcopy(pf)
    e["outs"][fi]["dt"] = "float16"
    add(e, "g", [("g", "UnknownDtype")])
    assert [o["dt"] for o in sv["outs"] if o["p"] == ["1"]] == ["float64"]
    add(sv, "h", [])                                                         # real singular values of a complex matrix: accepted
    e = copy.deepcopy(sv)
    [o for o in e["outs"] if o["p"] == ["0"]][0]["dt"] = "float64"            # but U must stay complex
    add(e, "i", [("i", "DroppedImaginary")])
    add(lv, "j", [])                                                         # float64 distribution for float32 input: documented
    e = copy.deepcopy(lv)
    e["outs"][0]["dt"] = "float32"
    add(e, "k", [("k", "NotDoublePrecision")])
    e = copy.deepcopy(lv)
    e["decl"] = []
    add(e, "l", [("l", "ObligationDeclMismatch")])
    e = copy.deepcopy(pf)
    e["outs"].append({"p": ["errors", "0"], "k": "scalar", "dt": "float64"})  # scalars are not obliged
    add(e, "m", [])
    evs.append({"id": "n", "ev": "Promote", "a": "int", "b": "float32", "r": "float32"})
    expect.append(("n", "LatticeDiffersFromNumPy"))
    evs.append({"id": "o", "ev": "Promote", "a": "int", "b": "float32", "r": "float64"})
    return evs, sorted(expect)


def main():
    ok = True
    evs, exp = c15_traces()
    got = run_tlc("OwnershipTrace", evs)
    print("C15 expected", exp)
    print("C15 got     ", got)
    ok &= got == exp
    evs, exp = c18_events()
    got = run_tlc("DtypeTrace", evs)
    print("C18 expected", exp)
    print("C18 got     ", got)
    ok &= got == exp
    print("SELFTEST", "PASS" if ok else "FAIL")
    sys.exit(0 if ok else 1)


if __name__ == "__main__":
    main()
