"""Self-test of the C05 binding: one genuine event plus copies with a single field corrupted.
Run:  cd /verif && /venv/bin/python selftest/c05_corrupt_events.py   (prints the REJECT tuples; the genuine event must be absent)"""
import copy, shutil, sys, warnings
sys.path.insert(0, "/repo"); sys.path.insert(0, "/verif")
warnings.filterwarnings("ignore")
from harness.common import Check
from harness.drivers import c05

chk = Check("C05X")
cfg = {"op": "gperm", "m": 3, "n": 4, "rows": [0, 2], "cols": [3, 1], "vals": [5, 2], "fam": "distinct"}
def opt(**kw):
    o = {"method": "truncated_svd", "over": 5, "niter": 2, "mask": "off", "pow2": 0, "form": "name", "cform": "mixed", "entry": "svd", "path": "interface", "retry": False, "k": 2, "flip": "off", "nonneg": "off", "via": "interface"}; o.update(kw); return o
opts = [opt(), opt(flip="U", k=5), opt(method="randomized_svd", over=0, k=1), opt(nonneg="nndsvd", flip="U", k=2), opt(method="symeig_svd", k=1, flip="V"),
        opt(method="randomized_svd", over=5, niter=0, k=2), opt(mask="ones", k=1), opt(pow2=650, k=1), opt(form="kwonly", k=1), opt(cform="pos", flip="V", k=2, path="helpers"), opt(cform="kw", entry="tl", retry=True, k=1),
        opt(nonneg="nndsvda", nnspell="name", cform="pos", k=2, path="helpers"), opt(method="randomized_svd", form="partial", over=10, k=2),
        opt(method="callable", form="object", k=1), opt(method="randomized_svd", pow2=-530, k=2)]
ev = c05.execute({"id": "good", "cfg": cfg, "full": False, "opts": opts, "seed": 3})
evs = [ev]
def mut(name, f):
    e = copy.deepcopy(ev); e["id"] = name; f(e); evs.append(e)
mut("S_value", lambda e: e["runs"][0]["S_q"].__setitem__(1, e["runs"][0]["S_q"][1] + 5))
mut("S_unsorted", lambda e: e["runs"][0]["S_q"].reverse())
mut("S_nan", lambda e: e["runs"][0]["fin"].__setitem__("S", False))
mut("shape_U", lambda e: e["runs"][1].__setitem__("shU", [3, 4]))
mut("gram", lambda e: e["runs"][0].__setitem__("gV_q", 7))
mut("err2", lambda e: e["runs"][0].__setitem__("err2_q", e["runs"][0]["err2_q"] + 4))
mut("err2_below_optimum", lambda e: e["runs"][2].__setitem__("err2_q", e["runs"][2]["err2_q"] - 1000000))
mut("sign", lambda e: e["runs"][1]["signs"].__setitem__(2, -1))
mut("product_changed", lambda e: e["runs"][4].__setitem__("pd_q", 300))
mut("negative_factor", lambda e: e["runs"][3].__setitem__("minV_q", -1))
mut("nan_factor", lambda e: e["runs"][3]["fin"].__setitem__("minU", False))
mut("input_matrix", lambda e: e["data"].__setitem__(0, 1))
mut("bad_option", lambda e: e["runs"][0].__setitem__("k", 9))
mut("raised", lambda e: e["runs"][0].__setitem__("raised", True))
mut("not_full_coverage", lambda e: e.__setitem__("full", True))
mut("not_gperm", lambda e: e["cfg"].__setitem__("cols", [1, 1]))
rej = chk.validate("SVDContractTrace", evs)
for r in sorted(rej, key=str): print(r)
print("machinery:", chk.machinery)
ids = {r[0] for r in rej}
assert not chk.machinery and "good" not in ids and len(ids) == len(evs) - 1, "self-test failed"
print("OK: %d corrupted events rejected, the genuine event accepted" % len(ids))
shutil.rmtree(chk.work)
