"""Self-test of the C04 binding: genuine events plus copies with a single field corrupted.
Run:  cd /verif && /venv/bin/python selftest/c04_corrupt_events.py"""
import copy, shutil, sys
sys.path.insert(0, "/repo"); sys.path.insert(0, "/verif")
from harness.common import Check
from harness.drivers import c04

chk = Check("C04X")
base = {"op": "none", "kind": "cp", "shape": [], "rank": [], "family": "generic", "how": "function", "mode": 0, "operand": "none", "odim": 0,
        "keep": False, "copy": False, "npad": 0, "padb": False, "lens": [], "maxrank": 0, "thr": 0, "listin": False,
        "fshapes": [], "coreshape": [], "pshapes": [], "rshapes": [], "mag": 0, "omix": "none", "steps": [], "grade": 0, "negmode": False, "cmix": "none", "cdtypes": [], "callform": "kw", "alias": False, "vals": "plain", "copyopt": "default"}
def cfg(**kw):
    c = dict(base); c.update(kw); return c
evs = []
def run(name, c, seed=5):
    e = c04.execute({"id": name, "cfg": c, "seed": seed, "k": 1, "draw": 0}); evs.append(e); return e
def mut(e, name, f):
    x = copy.deepcopy(e); x["id"] = name; f(x); evs.append(x)
n = run("good_norm", cfg(op="normalize", shape=[2, 3], rank=[2], family="pyth", fshapes=[[2, 2], [3, 2]]))
mut(n, "norm_dense", lambda e: e["out"]["dense"]["q"].__setitem__(0, e["out"]["dense"]["q"][0] + 50))
mut(n, "norm_colnorm", lambda e: e["out"]["cn"][1].__setitem__(0, 10**8 + 5000))
mut(n, "norm_nan", lambda e: e["out"]["dense"].__setitem__("fin", False))
mut(n, "norm_family", lambda e: e["in"]["fs"][0]["data"].__setitem__(0, 1 if e["in"]["fs"][0]["data"][0] != 1 else 2))
f = run("good_flip", cfg(op="cp_flip_sign", shape=[2, 3, 2], rank=[2], family="negw", how="tuple", mode=1, fshapes=[[2, 2], [3, 2], [2, 2]]), seed=4)
mut(f, "flip_wmin", lambda e: e["out"].__setitem__("wmin", -1000000))
mut(f, "flip_summ", lambda e: e["out"]["summ"][0].__setitem__(0, -500000))
p = run("good_pad", cfg(op="pad_tt_rank", kind="tt", shape=[2, 3, 2], rank=[1, 2, 2, 1], npad=1, fshapes=[[1, 2, 2], [2, 3, 2], [2, 2, 1]]))
mut(p, "pad_entry", lambda e: e["out"]["parts"]["fs"][1]["data"].__setitem__(0, e["out"]["parts"]["fs"][1]["data"][0] + 1))
mut(p, "pad_rank", lambda e: (e["out"]["parts"]["fs"][1].__setitem__("shape", [3, 3, 2]), e["out"]["parts"]["fs"][1].__setitem__("data", e["out"]["parts"]["fs"][1]["data"][:18])))
q = run("good_perm", cfg(op="cp_permute_factors", shape=[3, 2], rank=[3], family="perm", fshapes=[[3, 3], [2, 3]]))
mut(q, "perm_wrong", lambda e: e["out"].__setitem__("perm", e["out"]["perm"][1:] + e["out"]["perm"][:1]))
m = run("good_modedot", cfg(op="cp_mode_dot", shape=[2, 3], rank=[2], how="object", mode=1, operand="matrix", odim=2, copy=True, fshapes=[[2, 2], [3, 2]]))
mut(m, "modedot_shape", lambda e: e["out"]["dense"].__setitem__("shape", [4, 1]))
mut(m, "modedot_missing", lambda e: e["out"].pop("orth"))
s = run("good_svd", cfg(op="svd_roundtrip", kind="p2", shape=[2, 3], rank=[2], lens=[2, 3], family="fullrank", maxrank=2, thr=1,
                        fshapes=[[2, 2], [2, 2], [3, 2]], pshapes=[[2, 2], [3, 2]]))
mut(s, "svd_recon", lambda e: e["out"]["recon"][1]["q"].__setitem__(0, e["out"]["recon"][1]["q"][0] + 100))
mut(s, "svd_orth", lambda e: e["out"].__setitem__("orth", 100000))
v = run("good_compress", cfg(op="svd_compress", kind="slices", shape=[2, 3], rank=[3], lens=[1, 4], family="lowrank", maxrank=0, thr=0,
                             fshapes=[[1, 1], [4, 3]], rshapes=[[1, 3], [3, 3]]))
mut(v, "compress_truncated", lambda e: e["out"]["recon"][1]["q"].__setitem__(0, e["out"]["recon"][1]["q"][0] + 100))
mut(v, "compress_domain", lambda e: e["cfg"].__setitem__("maxrank", 1))
g = run("good_mag", cfg(op="normalize", kind="tucker", shape=[2, 3], rank=[2, 2], family="generic", mag=-70, fshapes=[[2, 2], [3, 2]], coreshape=[2, 2]), seed=9)
mut(g, "mag_unnormalised", lambda e: e["out"]["cn"][0].__setitem__(0, 3))
q2 = run("good_seq", cfg(op="sequence", shape=[2, 3], rank=[2], mode=1, odim=2, steps=["N", "M", "N"], fshapes=[[2, 2], [3, 2]]))
mut(q2, "seq_second_normalize_noop", lambda e: e["out"]["steps"][2]["cn"][1].__setitem__(0, 4 * 10**8))
mut(q2, "seq_dense", lambda e: e["out"]["steps"][1]["dense"]["q"].__setitem__(0, e["out"]["steps"][1]["dense"]["q"][0] + 100))
o2 = run("good_omix", cfg(op="tucker_mode_dot", kind="tucker", shape=[2, 3], rank=[2, 1], how="tuple", mode=1, operand="vector", keep=True, omix="real_cplx",
                          fshapes=[[2, 2], [3, 1]], coreshape=[2, 1]))
mut(o2, "omix_imag_lost", lambda e: e["out"]["dense_im"].__setitem__("q", [0] * len(e["out"]["dense_im"]["q"])))
mut(o2, "omix_dtype", lambda e: e["out"].__setitem__("dtype", "float64"))
gr = run("good_graded", cfg(op="svd_compress", kind="slices", shape=[2, 3], rank=[3], lens=[4, 3], family="lowrank", maxrank=0, thr=0, grade=27,
                            fshapes=[[4, 3], [3, 3]], rshapes=[[3, 3], [3, 3]]))
mut(gr, "graded_small_component_dropped", lambda e: e["out"]["recon_hi"][0].__setitem__("q", [0] * len(e["out"]["recon_hi"][0]["q"])))
pm = run("good_padmix", cfg(op="pad_tt_rank", kind="tt", shape=[2, 3, 2], rank=[1, 2, 2, 1], npad=1, cmix="f32_first",
                            fshapes=[[1, 2, 2], [2, 3, 2], [2, 2, 1]], cdtypes=["float32", "float64", "float64"]))
mut(pm, "padmix_cast", lambda e: e["out"].__setitem__("pdtypes", ["float32"] * 3))
x2 = run("good_seq_failed_call", cfg(op="sequence", shape=[2, 3], rank=[2], mode=1, odim=2, steps=["N", "X", "N"], fshapes=[[2, 2], [3, 2]]))
mut(x2, "seq_bad_call_accepted", lambda e: e["out"]["steps"][1].__setitem__("accepted", True))
rf = run("good_refused", cfg(op="refused", shape=[2, 3, 2], rank=[2], how="object", mode=1, operand="vector", copyopt="default", fshapes=[[2, 2], [3, 2], [2, 2]]))
mut(rf, "refused_lost_factor", lambda e: e["out"].__setitem__("nfac", 2))
mut(rf, "refused_accepted", lambda e: e["out"].__setitem__("accepted", True))
good = {e["id"] for e in evs if e["id"].startswith("good")}
rej = chk.validate("TransformsTrace", evs)
for r in sorted(rej): print(r[:2])
print("machinery:", chk.machinery)
ids = {r[0] for r in rej}
assert not chk.machinery and not (ids & good) and len(ids) == len(evs) - len(good), ("self-test failed", ids & good)
print("OK: %d corrupted events rejected, %d genuine events accepted" % (len(ids), len(good)))
shutil.rmtree(chk.work)
