"""Self-test of the C03 binding: one genuine event plus copies with a single field corrupted.
Run:  cd /verif && /venv/bin/python selftest/c03_corrupt_events.py   (prints the REJECT tuples; the genuine events must be absent)"""
import copy, shutil, sys
sys.path.insert(0, "/repo"); sys.path.insert(0, "/verif")
from harness.common import Check
from harness.drivers import c03

chk = Check("C03X")
cfg = {'shape': [2, 3, 2], 'hasw': True, 'op': 'cp', 'rank': [2], 'bad': 'none', 'at': 0, 'lens': [],
       'fshapes': [[2, 2], [3, 2], [2, 2]], 'wlen': 2, 'coreshape': [], 'pshapes': [], 'dl': 0, 'pden': 1, 'skip': -1, 'tr': False, 'modes': [],
       'mix': 'none', 'dens': [1, 1, 1], 'cden': 1, 'imk': 0, 'outdtype': 'float64', 'dtypes': ['float64'] * 3,
       'late': False, 'mag': 0, 'bfshapes': [], 'bcoreshape': [], 'bpshapes': [], 'bwlen': 0,
       'wshape': [2], 'tmag': 0, 'zero': 'none', 'alldtype': 'float64', 'pnear': 0, 'callform': 'pos', 'alias': False, 'vals': 'plain'}
ev = c03.execute({"id": "good", "cfg": cfg, "seed": 1, "k": 0, "draw": 0})
evs = [ev]
def mut(name, f):
    e = copy.deepcopy(ev); e["id"] = name; f(e); evs.append(e)
mut("dense_entry", lambda e: e["runs"]["einsum_object"]["dense"]["data"].__setitem__(3, e["runs"]["einsum_object"]["dense"]["data"][3] + 1))
mut("unf_swap", lambda e: e["runs"]["core_tuple"]["unf"].reverse())
mut("norm", lambda e: e["runs"]["core_tuple"]["norm"].update(q3=e["runs"]["core_tuple"]["norm"]["q3"] + 1, q6=e["runs"]["core_tuple"]["norm"]["q6"] + 1))
mut("norm_nan", lambda e: e["runs"]["core_tuple"]["norm"].update(fin3=False, q3=0, fin6=False, q6=0))
mut("rank", lambda e: e["runs"]["core_object"].__setitem__("rank", [3]))
mut("input_changed", lambda e: e["in"]["fs"][1]["data"].__setitem__(0, -e["in"]["fs"][1]["data"][0] or 1))
mut("missing_field", lambda e: e["runs"]["core_object"].pop("vec"))
mut("masked", lambda e: e["runs"]["core_tuple"]["masked"]["data"].__setitem__(0, 7))
mut("shape_wrong", lambda e: e["in"]["fs"][0].__setitem__("shape", [4, 1]))
mut("data_short", lambda e: e["in"]["fs"][0]["data"].pop())
cfg2 = dict(cfg, bad="fcols", at=2, dl=1, fshapes=[[2, 2], [3, 3], [2, 2]])
e2 = c03.execute({"id": "inv_good", "cfg": cfg2, "seed": 1, "k": 0, "draw": 0}); evs.append(e2)
e3 = copy.deepcopy(e2); e3["id"] = "inv_accepted"; e3["runs"]["core_tuple"]["rejected"] = False; evs.append(e3)
e4 = copy.deepcopy(e2); e4["id"] = "inv_converted"; e4["runs"]["core_convert"]["rejected"] = False; evs.append(e4)
cfg3 = dict(cfg, op="p2", shape=[2, 2], rank=[2], lens=[3, 2], bad="nonorth_zero", at=1, fshapes=[[2, 2], [2, 2], [2, 2]], pshapes=[[3, 2], [2, 2]])
e5 = c03.execute({"id": "inv_p2_good", "cfg": cfg3, "seed": 1, "k": 0, "draw": 0}); evs.append(e5)
e6 = copy.deepcopy(e5); e6["id"] = "inv_p2_accepted"; e6["runs"]["einsum_object"]["rejected"] = False; evs.append(e6)
cfg4 = dict(cfg, op="tucker", hasw=False, wlen=0, wshape=[], shape=[2, 3, 2], rank=[2, 1, 2], fshapes=[[2, 2], [3, 1], [2, 2]], coreshape=[2, 1, 2], skip=1)
e7 = c03.execute({"id": "opt_good", "cfg": cfg4, "seed": 1, "k": 0, "draw": 0}); evs.append(e7)
e8 = copy.deepcopy(e7); e8["id"] = "opt_vec_full"; e8["runs"]["core_tuple"]["vec"]["data"][0] += 1; evs.append(e8)
cfg5 = dict(cfg, mix="cplx_last", dens=[2, 2, 2], imk=3, outdtype="complex128", dtypes=["float64", "float64", "complex128"])
e9 = c03.execute({"id": "mix_good", "cfg": cfg5, "seed": 1, "k": 0, "draw": 0}); evs.append(e9)
e10 = copy.deepcopy(e9); e10["id"] = "mix_imag_lost"; e10["runs"]["core_tuple"]["dense"]["im"] = [0] * len(e10["runs"]["core_tuple"]["dense"]["im"]); evs.append(e10)
e11 = copy.deepcopy(e9); e11["id"] = "mix_dtype"; e11["runs"]["einsum_object"]["dtype"] = "float64"; evs.append(e11)
e12 = copy.deepcopy(ev); e12["id"] = "seq_mutated"; e12["runs"]["core_object_seq"]["dense2"]["data"][0] += 1; evs.append(e12)
cfg6 = dict(cfg4, skip=-1, late=True, bfshapes=[[3, 1], [2, 2], [2, 2]], bcoreshape=[1, 2, 2])     # Tucker (CP has F-03c)
e13 = c03.execute({"id": "late_good", "cfg": cfg6, "seed": 1, "k": 0, "draw": 0}); evs.append(e13)
e14 = copy.deepcopy(e13); e14["id"] = "late_stale_shape"; e14["runs"]["einsum_late"]["dense"]["shape"] = [3, 2, 2]; evs.append(e14)
cfg7 = dict(cfg2, late=True, bfshapes=[[2, 2], [3, 2], [2, 2]], bwlen=2)
e15 = c03.execute({"id": "late_inv_good", "cfg": cfg7, "seed": 1, "k": 0, "draw": 0})
for rr in e15["runs"].values(): rr["rejected"] = True          # (on a tree with F-03c unfixed cp_norm returns: normalise the genuine event)
evs.append(e15)
e16 = copy.deepcopy(e15); e16["id"] = "late_inv_accepted"; e16["runs"]["einsum_late"]["rejected"] = False; evs.append(e16)
cfg8 = dict(cfg, mag=-500)
e17 = c03.execute({"id": "mag_good", "cfg": cfg8, "seed": 1, "k": 0, "draw": 0}); evs.append(e17)
cfg9 = dict(cfg, bad="wshape", at=2, wshape=[2, 2], wlen=4)                     # weights given as a 2 x 2 matrix
e18 = c03.execute({"id": "wshape_good", "cfg": cfg9, "seed": 1, "k": 0, "draw": 0}); evs.append(e18)
e19 = copy.deepcopy(e18); e19["id"] = "wshape_accepted"; e19["runs"]["core_object"]["rejected"] = False; evs.append(e19)
cfg10 = dict(cfg, zero="part")
e20 = c03.execute({"id": "zero_good", "cfg": cfg10, "seed": 1, "k": 0, "draw": 0}); evs.append(e20)
e21 = copy.deepcopy(e20); e21["id"] = "zero_norm_eps"; e21["runs"]["core_tuple"]["norm"]["iszero"] = False; evs.append(e21)
cfg11 = dict(cfg, tmag=-30)
e22 = c03.execute({"id": "tmag_good", "cfg": cfg11, "seed": 1, "k": 0, "draw": 0}); evs.append(e22)
cfg12 = dict(cfg3, bad="none", at=0, pnear=1)                                   # projections times (1 + 2^-18): valid
e23 = c03.execute({"id": "pnear_good", "cfg": cfg12, "seed": 1, "k": 0, "draw": 0}); evs.append(e23)
e24 = copy.deepcopy(e23); e24["id"] = "pnear_norm_from_factors"
e24["runs"]["core_object"]["norm"]["q6"] = int(round(e24["runs"]["core_object"]["norm"]["q6"] * (1 - 2 * 2.0 ** -18))); evs.append(e24)
cfg13 = dict(cfg4, bad="fcols", at=1, dl=-1, skip=1, fshapes=[[2, 1], [3, 1], [2, 2]])      # invalid pair, factor 1 applied, factor 2 skipped
e25 = c03.execute({"id": "optbad_good", "cfg": cfg13, "seed": 1, "k": 0, "draw": 0}); evs.append(e25)
e26 = copy.deepcopy(e25); e26["id"] = "optbad_converted"; e26["runs"]["einsum_convert"]["rejected"] = False; evs.append(e26)
cfg14 = dict(cfg, shape=[2, 2, 3], fshapes=[[2, 2], [2, 2], [3, 2]], alias=True, vals="subnormal", callform="kw")    # two factors are one array; tiny zeros
e27 = c03.execute({"id": "alias_good", "cfg": cfg14, "seed": 1, "k": 0, "draw": 0}); evs.append(e27)
e28 = copy.deepcopy(e27); e28["id"] = "alias_broken"; e28["in"]["fs"][e28["in"]["aliased"][1] - 1]["data"][0] += 1; evs.append(e28)
rej = chk.validate("FactorizedTrace", evs)
for r in sorted(rej): print(r)
print("machinery:", chk.machinery)
good = {"good", "inv_good", "inv_p2_good", "opt_good", "mix_good", "late_good", "late_inv_good", "mag_good", "wshape_good", "zero_good", "tmag_good",
        "pnear_good", "optbad_good", "alias_good"}
ids = {r[0] for r in rej}
assert not chk.machinery and not (ids & good) and len(ids) == len(evs) - len(good), ("self-test failed", ids & good)
print("OK: %d corrupted events rejected, %d genuine events accepted" % (len(ids), len(good)))
shutil.rmtree(chk.work)
